#!/usr/bin/env python3
import json,sys,hashlib
def dsha(b): return hashlib.sha256(hashlib.sha256(b).digest()).digest()
for f in sys.argv[1:]:
    d=json.load(open(f))
    print(f,d['signature'],'\n ',d['detail'])
    names={}
    g=bytes.fromhex("0100000000000000000000000000000000000000000000000000000000000000000000003ba3edfd7a7b12b27ac72c3e67768f617fc81bc3888a51323a9fb8aa4b1e5e4a29ab5f49ffff001d1dac2b7c")
    names[dsha(g)[::-1].hex()]='G'
    i=0
    for op in d['witness']['trace']['ops']:
        if op['k']=='submit':
            b=bytes.fromhex(op['hdr'])
            h=dsha(b)[::-1].hex()
            if h not in names:
                names[h]='h%d'%i; i+=1
            prev=b[4:36][::-1].hex()
            print('  submit %s prev=%s bits=%s %s'%(names[h],names.get(prev,'?'+prev[:6]),b[72:76][::-1].hex(),op.get('note','')))
        elif op['k'] in('mark','unmark'):
            print('  ',op['k'],names.get(op['hash'],op['hash'][:8]))
        else: print('  ',op)
    print('  maxdepth',d['witness']['trace']['max_branch_depth'])
