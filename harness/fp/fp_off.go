//go:build !failpoints

// Package fp arms gofail failpoints compiled into a scratch copy of the code under test
// (tools/failpoints.py + `gofail enable`); without the build tag every call is a no-op.
package fp

const Compiled = false

func List() []string              { return nil }
func Arm(terms map[string]string) {}
func Hits() map[string]int        { return nil }
