//go:build failpoints

// Package fp arms gofail failpoints compiled into a scratch copy of the code under test
// (tools/failpoints.py + `gofail enable`); without the build tag every call is a no-op.
package fp

import (
	"sort"
	"sync"

	gofail "go.etcd.io/gofail/runtime"
)

const Compiled = true

// List returns the failpoints compiled into this binary.
func List() []string {
	l := gofail.List()
	sort.Strings(l)
	return l
}

var (
	mu     sync.Mutex
	totals = map[string]int{}
)

func collect() {
	for _, n := range gofail.List() {
		if _, c, err := gofail.Status(n); err == nil {
			totals[n] += c // the counter belongs to the current terms and restarts on Enable
		}
	}
}

// Arm sets the terms of the named failpoints (e.g. "50.0%sleep(1)") and switches all others off.
func Arm(terms map[string]string) {
	mu.Lock()
	defer mu.Unlock()
	collect()
	for _, n := range gofail.List() {
		if t, ok := terms[n]; ok && t != "" {
			gofail.Enable(n, t)
		} else {
			gofail.Disable(n)
		}
	}
}

// Hits returns how often each failpoint has fired (its action was executed) so far; call it after
// a final Arm(nil).
func Hits() map[string]int {
	mu.Lock()
	defer mu.Unlock()
	out := map[string]int{}
	for _, n := range gofail.List() {
		out[n] = totals[n]
	}
	return out
}
