module verifharness

go 1.21

require (
	github.com/anishathalye/porcupine v1.3.0
	github.com/google/uuid v1.3.0
	github.com/pkg/errors v0.9.1
	github.com/tokenized/bitcoin_reader v0.0.0
	github.com/tokenized/config v0.2.2
	github.com/tokenized/logger v0.1.3
	github.com/tokenized/pkg v0.7.1-0.20230518151913-31bef1f54301
	github.com/tokenized/threads v0.1.2
)

require (
	github.com/FactomProject/basen v0.0.0-20150613233007-fe3947df716e // indirect
	github.com/FactomProject/btcutilecc v0.0.0-20130527213604-d3a63a5752ec // indirect
	github.com/aws/aws-sdk-go v1.35.3 // indirect
	github.com/btcsuite/btcd v0.20.1-beta // indirect
	github.com/btcsuite/btcutil v1.0.2 // indirect
	github.com/gomodule/redigo v1.8.2 // indirect
	github.com/jmespath/go-jmespath v0.4.0 // indirect
	github.com/kelseyhightower/envconfig v1.4.0 // indirect
	github.com/tyler-smith/go-bip32 v0.0.0-20170922074101-2c9cfd177564 // indirect
	go.etcd.io/gofail v0.2.0
	golang.org/x/crypto v0.8.0 // indirect
)

replace github.com/tokenized/bitcoin_reader => /repo
