package main

import (
	"flag"
	"fmt"
	"os"

	"verifharness/common"
	"verifharness/hdr"
	"verifharness/netx"
	"verifharness/pow"
)

func main() {
	if len(os.Args) < 2 {
		fmt.Println("usage: vcheck <Cxx> [-tier quick|thorough] [-replay path]")
		os.Exit(2)
	}
	prop := os.Args[1]
	if prop == "dump" {
		hdr.DumpReplay(os.Args[2])
		return
	}
	fs := flag.NewFlagSet("vcheck", flag.ExitOnError)
	tier := fs.String("tier", "quick", "quick|thorough")
	replay := fs.String("replay", "", "replay a witness file")
	fs.Parse(os.Args[2:])
	seed := common.EnvSeed()

	if *replay != "" {
		os.Exit(doReplay(prop, *replay))
	}
	os.Exit(dispatch(prop, *tier, seed))
}

func dispatch(prop, tier string, seed int64) int {
	if _, ok := hdr.HistCheckFor(prop); ok {
		return hdr.RunHist(prop, tier, seed)
	}
	switch prop {
	case "C02":
		return pow.RunC02(tier, seed)
	case "C14":
		return netx.RunC14(tier, seed)
	case "C13":
		return netx.RunC13(tier, seed)
	case "C03":
		return pow.RunC03(tier, seed, netx.C03Peer)
	}
	fmt.Printf("no check for %s\n", prop)
	return 2
}

func doReplay(prop, path string) int {
	if hc, ok := hdr.HistCheckFor(prop); ok {
		code, err := hdr.ReplayFile(path, prop, hc.Opt)
		if err != nil {
			fmt.Println("replay error:", err)
		}
		return code
	}
	return 2
}
