package main

import (
	"flag"
	"fmt"
	"os"
	"runtime/pprof"

	"verifharness/common"
	"verifharness/conc"
	"verifharness/hdr"
	"verifharness/netx"
	"verifharness/pow"
)

func main() {
	if len(os.Args) < 2 {
		fmt.Println("usage: vcheck <Cxx> [-tier quick|thorough] [-replay path]")
		os.Exit(2)
	}
	prop := os.Args[1]
	if prop == "c15worker" {
		var seed int64
		var batch, per, only int
		fmt.Sscan(os.Args[2], &seed)
		fmt.Sscan(os.Args[3], &batch)
		fmt.Sscan(os.Args[4], &per)
		fmt.Sscan(os.Args[6], &only)
		os.Exit(netx.C15Worker(seed, batch, per, os.Args[5], only))
	}
	if prop == "c20load" {
		os.Exit(conc.C20LoadWorker(os.Args[2]))
	}
	if prop == "dump" {
		hdr.DumpReplay(os.Args[2])
		return
	}
	fs := flag.NewFlagSet("vcheck", flag.ExitOnError)
	tier := fs.String("tier", "quick", "quick|thorough")
	replay := fs.String("replay", "", "replay a witness file")
	phase := fs.String("phase", "", "second phase of a two-phase check (race)")
	fs.Parse(os.Args[2:])
	seed := common.EnvSeed()
	if pf := os.Getenv("VERIF_PPROF"); pf != "" {
		f, _ := os.Create(pf)
		pprof.StartCPUProfile(f)
		defer pprof.StopCPUProfile()
	}

	if *replay != "" {
		os.Exit(doReplay(prop, *replay))
	}
	if *phase == "race" {
		os.Exit(dispatchRace(prop, *tier, seed))
	}
	if *phase == "failpoints" {
		os.Exit(conc.RunFailpoints(prop, *tier, seed))
	}
	code := dispatch(prop, *tier, seed)
	pprof.StopCPUProfile()
	os.Exit(code)
}

func dispatch(prop, tier string, seed int64) int {
	hdr.Extra["C19"] = pow.C19Fixture
	hdr.Extra["C12"] = hdr.C12DeepReorg
	if _, ok := hdr.HistCheckFor(prop); ok {
		return hdr.RunHist(prop, tier, seed)
	}
	switch prop {
	case "C02":
		return pow.RunC02(tier, seed)
	case "C14":
		return netx.RunC14(tier, seed)
	case "C20":
		return conc.RunC20(tier, seed)
	case "C04":
		return conc.RunC04(tier, seed)
	case "C16":
		return conc.RunC16(tier, seed)
	case "C05":
		return conc.RunC05(tier, seed)
	case "C06":
		return conc.RunC06(tier, seed)
	case "C15":
		return netx.RunC15(tier, seed, os.Getenv("VERIF_RACE_PASS") != "")
	case "C13":
		return netx.RunC13(tier, seed)
	case "C03":
		return pow.RunC03(tier, seed, netx.C03Peer)
	}
	fmt.Printf("no check for %s\n", prop)
	return 2
}

func dispatchRace(prop, tier string, seed int64) int {
	switch prop {
	case "C01":
		return hdr.RunC01Concurrent(tier, seed)
	case "C15":
		return netx.RunC15(tier, seed, true)
	}
	fmt.Printf("no race phase for %s\n", prop)
	return 2
}

func doReplay(prop, path string) int {
	if hc, ok := hdr.HistCheckFor(prop); ok {
		code, err := hdr.ReplayFile(path, prop, hc.Opt)
		if err != nil {
			fmt.Println("replay error:", err)
		}
		return code
	}
	return 2
}
