package pow

import (
	"context"
	"encoding/json"
	"fmt"
	"math/big"
	"math/rand"
	"os"
	"runtime"
	"sync"

	"verifharness/common"
	"verifharness/hdr"

	"github.com/pkg/errors"
	"github.com/tokenized/bitcoin_reader/headers"
	"github.com/tokenized/pkg/bitcoin"
	"github.com/tokenized/pkg/wire"
)

const daaActivation = 556767

type Fixture struct {
	Headers []*wire.BlockHeader
	Height  int      // height of Headers[0]
	Work    *big.Int // cumulative work below Headers[0]
}

func LoadFixture(name string) (*Fixture, error) {
	f, err := os.Open(common.RepoDir() + "/headers/test_fixtures/" + name)
	if err != nil {
		return nil, err
	}
	defer f.Close()
	fx := &Fixture{Work: new(big.Int)}
	if err := json.NewDecoder(f).Decode(&fx.Headers); err != nil {
		return nil, err
	}
	switch name {
	case "headers_556000.txt":
		fx.Height = 556000
		fx.Work.SetString("d167cf38dd7a9c078a40d5", 16)
	case "headers_725000.txt":
		fx.Height = 725000
		fx.Work.SetString("134b2eb2b14bbedbad9a14b", 16)
	}
	return fx, nil
}

// NewFixtureRepo returns a repository bootstrapped with the first n fixture headers (difficulty
// disabled for the first 150, as the repository's own tests do, then enabled).
func NewFixtureRepo(ctx context.Context, fx *Fixture, n int) (*headers.Repository, error) {
	repo := headers.NewRepository(headers.DefaultConfig(), common.NewMemStore())
	repo.DisableDifficulty()
	for i := 0; i < n && i < len(fx.Headers); i++ {
		if i == 150 {
			repo.EnableDifficulty()
		}
		if i == 0 {
			if err := repo.MockLatest(ctx, fx.Headers[0], fx.Height, new(big.Int).Set(fx.Work)); err != nil {
				return nil, err
			}
			continue
		}
		if err := repo.ProcessHeader(ctx, fx.Headers[i]); err != nil {
			return nil, errors.Wrapf(err, "fixture header %d", fx.Height+i)
		}
	}
	if n <= 150 {
		repo.EnableDifficulty()
	}
	return repo, nil
}

func classify(err error) string {
	if err == nil {
		return "ok"
	}
	switch errors.Cause(err) {
	case headers.ErrNotEnoughWork:
		return "not-enough-work"
	case headers.ErrInvalidTarget:
		return "invalid-target"
	case headers.ErrUnknownHeader:
		return "unknown"
	case headers.ErrWrongChain:
		return "wrongchain"
	case headers.ErrBeyondMaxBranchDepth:
		return "depth"
	case headers.ErrHeaderMarkedInvalid:
		return "invalid"
	}
	return "other"
}

func safe(f func()) (p string) {
	defer func() {
		if r := recover(); r != nil {
			p = fmt.Sprintf("%v", r)
		}
	}()
	f()
	return ""
}

func bitsClass(bits uint32) string {
	t, neg, over := hdr.RefCompactTarget(bits)
	exp := bits >> 24
	switch {
	case neg:
		return "negative"
	case t.Sign() == 0:
		return "zero-target"
	case over:
		return "overflow"
	case exp < 3:
		return "tiny-exponent"
	}
	return "regular"
}

// grind searches up to tries nonces for a hash not above the reference target.
func grind(hd *wire.BlockHeader, tries int) bool {
	t, neg, _ := hdr.RefCompactTarget(hd.Bits)
	if neg || t.Sign() == 0 {
		return false
	}
	for i := 0; i < tries; i++ {
		if hd.BlockHash().Value().Cmp(t) <= 0 {
			return true
		}
		hd.Nonce++
	}
	return false
}

type c02State struct {
	run *common.Run
	mu  sync.Mutex
	obs map[string]int64
}

func (s *c02State) count(k string) {
	s.mu.Lock()
	s.obs[k]++
	s.mu.Unlock()
}

// judgeAccept decides whether an accepted header is admissible by the property.
// reqBits is the DAA-required bits (0 when below activation).
func (s *c02State) judgeAccept(hd *wire.BlockHeader, height int, reqA, reqB uint32, where string, w interface{}) {
	t, neg, over := hdr.RefCompactTarget(hd.Bits)
	cls := bitsClass(hd.Bits)
	switch {
	case neg:
		s.run.Violate(common.Violation{Clause: "hash-does-not-exceed-target", Signature: "bits/negative-accepted/" + where,
			Detail: fmt.Sprintf("header with negative compact bits 0x%08x accepted at height %d", hd.Bits, height), Witness: w})
		return
	case t.Sign() == 0:
		s.run.Violate(common.Violation{Clause: "hash-does-not-exceed-target", Signature: "bits/zero-target-accepted/" + where,
			Detail: fmt.Sprintf("header with zero target bits 0x%08x accepted at height %d", hd.Bits, height), Witness: w})
		return
	case over:
		s.count("overflow-bits-accepted(observed-behaviour)")
	default:
		if hd.BlockHash().Value().Cmp(t) > 0 {
			s.run.Violate(common.Violation{Clause: "hash-does-not-exceed-target", Signature: "hash-above-target-accepted/" + cls + "/" + where,
				Detail: fmt.Sprintf("header %s bits 0x%08x accepted at height %d although its hash exceeds the target", hd.BlockHash(), hd.Bits, height), Witness: w})
			return
		}
	}
	_ = reqB
	if height >= daaActivation && hd.Bits != reqA {
		s.run.Violate(common.Violation{Clause: "bits-equal-daa-from-activation", Signature: "wrong-bits-accepted/" + where,
			Detail: fmt.Sprintf("header at height %d accepted with bits 0x%08x, algorithm requires 0x%08x", height, hd.Bits, reqA), Witness: w})
	}
}

var mantissas = []uint32{0, 1, 0x7fffff, 0x800000, 0x80ffff, 0x00ffff, 0x008000, 0x010000, 0x0000ff, 0xffffff}

// bitsRobustness: every exponent byte x mantissa classes x placements through ProcessHeader.
func (s *c02State) bitsRobustness(ctx context.Context, fx *Fixture, rounds int) {
	type job struct{ exp uint32 }
	common.ParallelFor(256, runtime.NumCPU(), func(e int) {
		rng := common.Rng(s.run.Seed, int64(1000+e))
		// placement A: child of genesis, difficulty enabled
		newA := func() *headers.Repository {
			r := headers.NewRepository(headers.DefaultConfig(), common.NewMemStore())
			r.InitializeWithGenesis()
			return r
		}
		repoA := newA()
		repoB, err := NewFixtureRepo(ctx, fx, 200)
		if err != nil {
			s.run.Inconclusive("fixture-bootstrap-failed: " + err.Error())
			return
		}
		gen := hdr.MainGenesis()
		tipB := fx.Headers[199]
		getB := func(h int) TW { // cumulative work/time from the fixture itself
			return fixtureTW(fx, h)
		}
		reqA, reqB := RefDAA(getB, fx.Height+200)
		ms := append([]uint32(nil), mantissas...)
		for r := 0; r < rounds; r++ {
			ms = append(ms, rng.Uint32()&0xffffff)
		}
		for _, m := range ms {
			bits := uint32(e)<<24 | m
			cls := bitsClass(bits)
			for _, place := range []string{"child-of-genesis", "child-of-fixture-tip", "orphan"} {
				hd := &wire.BlockHeader{Version: 0x20000000, Bits: bits, Nonce: rng.Uint32()}
				rng.Read(hd.MerkleRoot[:])
				var repo *headers.Repository
				height := 0
				switch place {
				case "child-of-genesis":
					hd.PrevBlock = *gen.BlockHash()
					hd.Timestamp = gen.Timestamp + 600
					repo, height = repoA, 1
				case "child-of-fixture-tip":
					hd.PrevBlock = *tipB.BlockHash()
					hd.Timestamp = tipB.Timestamp + 600
					repo, height = repoB, fx.Height+200
				default:
					rng.Read(hd.PrevBlock[:])
					hd.Timestamp = 1600000000
					repo, height = repoA, -1
				}
				ground := grind(hd, 64)
				w := map[string]interface{}{"kind": "header", "placement": place, "header": hdr.HdrHex(hd), "bits": fmt.Sprintf("0x%08x", bits)}
				before := repo.Height()
				var err error
				pan := safe(func() { err = repo.ProcessHeader(ctx, hd) })
				s.run.Eval(1)
				s.run.DistinctStr(fmt.Sprintf("%d/%s/%s/%v", e, cls, place, ground))
				if e%37 == 0 && m == 0x00ffff {
					s.run.Sample(w)
				}
				if pan != "" {
					s.run.Violate(common.Violation{Clause: "never-a-process-crash", Signature: "process-header-panics/bits-class=" + cls + "/" + place,
						Detail: fmt.Sprintf("ProcessHeader panicked on bits 0x%08x (%s): %s", bits, place, pan), Witness: w})
					if place != "child-of-fixture-tip" {
						repoA = newA()
					}
					continue
				}
				c := classify(err)
				s.count("bits-grid/" + place + "/" + c)
				if c == "ok" {
					s.judgeAccept(hd, height, reqA, reqB, place, w)
					if place == "child-of-genesis" {
						repoA = newA()
					}
					if place == "child-of-fixture-tip" {
						repoB, _ = NewFixtureRepo(ctx, fx, 200)
					}
				} else if repo.Height() != before {
					s.run.Violate(common.Violation{Clause: "decision-is-accept-or-error", Signature: "refused-header-changed-tip/" + place,
						Detail: fmt.Sprintf("bits 0x%08x refused (%v) but height changed", bits, err), Witness: w})
				}
				if place == "orphan" && c == "ok" {
					s.run.Violate(common.Violation{Clause: "decision-is-accept-or-error", Signature: "orphan-accepted", Detail: "", Witness: w})
				}
			}
		}
	})
	_ = rand.Int
}

func fixtureTW(fx *Fixture, h int) TW {
	// cumulative work including header h
	i := h - fx.Height
	w := new(big.Int).Set(fx.Work)
	for k := 0; k <= i; k++ {
		w.Add(w, hdr.WorkOfBits(fx.Headers[k].Bits))
	}
	return TW{T: fx.Headers[i].Timestamp, W: w}
}

// cumTable precomputes cumulative work for a fixture.
func cumTable(fx *Fixture) []TW {
	out := make([]TW, len(fx.Headers))
	w := new(big.Int).Set(fx.Work)
	for i, h := range fx.Headers {
		w = new(big.Int).Add(w, hdr.WorkOfBits(h.Bits))
		out[i] = TW{T: h.Timestamp, W: w}
	}
	return out
}

// realChain replays a fixture with difficulty enabled and validates the reference DAA on it;
// then submits single-field mutants of real headers.
func (s *c02State) realChain(ctx context.Context, fx *Fixture, name string, mutEvery int, seedOff int64) {
	rng := common.Rng(s.run.Seed, seedOff)
	tab := cumTable(fx)
	get := func(h int) TW { return tab[h-fx.Height] }
	repo := headers.NewRepository(headers.DefaultConfig(), common.NewMemStore())
	repo.DisableDifficulty()
	for i, real := range fx.Headers {
		height := fx.Height + i
		if i == 150 {
			repo.EnableDifficulty()
		}
		if i == 0 {
			repo.MockLatest(ctx, real, fx.Height, new(big.Int).Set(fx.Work))
			continue
		}
		var reqA, reqB uint32
		if i > 150 {
			reqA, reqB = RefDAA(get, height)
			if height >= daaActivation {
				s.run.Eval(1)
				s.count("reference-daa-evaluated-on-real-headers")
				if real.Bits != reqA {
					s.run.Inconclusive(fmt.Sprintf("reference-daa-disagrees-with-mainnet at %d: ref 0x%08x real 0x%08x", height, reqA, real.Bits))
				} else if reqA != reqB {
					s.count("real-header-on-inversion-rounding-boundary")
				}
			}
			// mutants first (parent is the tip)
			if i%mutEvery == 0 {
				s.mutants(ctx, repo, real, height, reqA, reqB, rng, name)
			}
		}
		var err error
		pan := safe(func() { err = repo.ProcessHeader(ctx, real) })
		if pan != "" || err != nil {
			s.run.Violate(common.Violation{Clause: "every-real-header-accepted", Signature: "real-header-refused/" + name + "/" + classify(err),
				Detail:  fmt.Sprintf("real mainnet header at height %d refused: panic=%q err=%v", height, pan, err),
				Witness: map[string]interface{}{"kind": "fixture", "fixture": name, "index": i}})
			return
		}
		s.count("real-headers-accepted")
		if h := repo.Height(); h != height {
			s.run.Violate(common.Violation{Clause: "every-real-header-accepted", Signature: "real-header-not-tip/" + name,
				Detail:  fmt.Sprintf("after real header %d the tip height is %d", height, h),
				Witness: map[string]interface{}{"kind": "fixture", "fixture": name, "index": i}})
			return
		}
	}
}

func (s *c02State) mutants(ctx context.Context, repo *headers.Repository, real *wire.BlockHeader, height int, reqA, reqB uint32, rng *rand.Rand, name string) {
	try := func(kind string, hd *wire.BlockHeader) {
		if *hd.BlockHash() == *real.BlockHash() {
			return
		}
		var err error
		pan := safe(func() { err = repo.ProcessHeader(ctx, hd) })
		s.run.Eval(1)
		w := map[string]interface{}{"kind": "mutant", "fixture": name, "height": height, "mutation": kind, "header": hdr.HdrHex(hd)}
		s.run.DistinctStr(fmt.Sprintf("%s/%d/%s", name, height, kind))
		if pan != "" {
			s.run.Violate(common.Violation{Clause: "never-a-process-crash", Signature: "process-header-panics/mutant-" + kind, Detail: pan, Witness: w})
			return
		}
		c := classify(err)
		s.count("mutant/" + kind + "/" + c)
		if c == "ok" {
			s.judgeAccept(hd, height, reqA, reqB, "mutant-"+kind, w)
		}
	}
	for f := 0; f < 6; f++ {
		hd := real.Copy()
		switch f {
		case 0:
			hd.Version ^= 1 << uint(rng.Intn(29))
		case 1:
			hd.MerkleRoot[rng.Intn(32)] ^= 1 << uint(rng.Intn(8))
		case 2:
			hd.Timestamp += uint32(1 + rng.Intn(3))
		case 3:
			hd.Nonce ^= 1 << uint(rng.Intn(32))
		case 4:
			hd.Bits ^= 1 << uint(rng.Intn(16))
		case 5:
			hd.Bits = 0x1d00ffff
		}
		try([]string{"version", "merkle", "time", "nonce", "bits-bit", "bits-min-difficulty"}[f], &hd)
	}
	// easy bits with the nonce ground so that proof of work passes: must be the bad-bits class
	for _, easy := range []uint32{0x207fffff, 0x2100ffff, 0x1f7fffff} {
		hd := real.Copy()
		hd.Bits = easy
		hd.Nonce = rng.Uint32()
		if grind(&hd, 4000) {
			try(fmt.Sprintf("easy-bits-ground-%08x", easy), &hd)
		}
	}
}

// daaDifferential: Branch.Target vs the reference on synthetic chains with hostile timestamps.
func (s *c02State) daaDifferential(ctx context.Context, nChains int) {
	regimes := []string{"regular", "ties", "decreasing", "far-future", "random-walk", "ties-all-orderings", "upper-clamp-band", "lower-clamp-band"}
	common.ParallelFor(nChains, runtime.NumCPU(), func(ci int) {
		rng := common.Rng(s.run.Seed, int64(50000+ci))
		regime := regimes[ci%len(regimes)]
		n := 150 + rng.Intn(200)
		onChild := ci%3 == 1
		// build times
		times := make([]uint32, n+1)
		t := uint32(1540000000)
		for i := range times {
			switch regime {
			case "regular":
				t += uint32(300 + rng.Intn(600))
			case "ties", "ties-all-orderings":
				// triples drawn from a tiny alphabet so that every weak ordering of three
				// consecutive timestamps occurs
				base := uint32(1540000000 + (i/3)*600)
				t = base + uint32(rng.Intn(3))*uint32(rng.Intn(2)+0)
				if regime == "ties-all-orderings" {
					t = uint32(1540000000) + uint32(i*10) + uint32(rng.Intn(3))*30 - 30
				}
			case "upper-clamp-band":
				// 144 intervals of 1200 s are exactly 288 blocks' worth; the jitter puts the span
				// between the two medians within one block interval either side of the clamp
				t = uint32(1540000000) + uint32(i)*1200 + uint32(rng.Intn(600))
			case "lower-clamp-band":
				// 144 intervals of 300 s are exactly 72 blocks' worth
				t = uint32(1540000000) + uint32(i)*300 + uint32(rng.Intn(300))
			case "decreasing":
				t -= uint32(1 + rng.Intn(900))
			case "far-future":
				t += uint32(rng.Intn(600))
				if rng.Intn(40) == 0 {
					t += uint32(86400 * (1 + rng.Intn(30)))
				}
			case "random-walk":
				t = uint32(int64(t) + int64(rng.Intn(4000)) - 1900)
			}
			times[i] = t
		}
		var tab []TW
		get := func(h int) TW { return tab[h] }
		var root, cur *headers.Branch
		prev := bitcoin.Hash32{}
		cum := new(big.Int)
		bits := uint32(0x1802aaaa + rng.Intn(0x10000))
		forkAt := -1
		if onChild {
			forkAt = 10 + rng.Intn(n-20)
		}
		for h := 0; h <= n; h++ {
			var reqA, reqB uint32
			if h >= 147 {
				reqA, reqB = RefDAA(get, h)
				var tgt *big.Int
				var err error
				pan := safe(func() { tgt, err = cur.Target(ctx, h) })
				s.run.Eval(1)
				w := map[string]interface{}{"kind": "daa-chain", "regime": regime, "height": h, "on_child_branch": onChild,
					"fork_at": forkAt, "times": lastN(times[:h], 150), "bits": lastBits(tab, h)}
				if pan != "" || err != nil {
					s.run.Violate(common.Violation{Clause: "never-a-process-crash", Signature: "target-fails/" + regime,
						Detail: fmt.Sprintf("Branch.Target(%d) panic=%q err=%v", h, pan, err), Witness: w})
					return
				}
				got := bitcoin.ConvertToBits(tgt, bitcoin.MaxBits)
				s.count("daa/" + regime + "/evaluated")
				if got != reqA {
					s.run.Violate(common.Violation{Clause: "bits-equal-daa-on-own-branch", Signature: "daa-differs/" + daaCause(get, h),
						Detail: fmt.Sprintf("regime %s height %d (child branch: %v): repository requires 0x%08x, reference 0x%08x", regime, h, onChild, got, reqA), Witness: w})
					return
				}
				if reqA != reqB {
					s.count("daa/inversion-rounding-boundary-hit")
					_ = reqB
				}
				if rng.Intn(3) > 0 {
					bits = reqA
				} else if rng.Intn(4) == 0 {
					bits = uint32(0x1802aaaa + rng.Intn(0x10000))
				}
			}
			hd := &wire.BlockHeader{Version: 1, PrevBlock: prev, Timestamp: times[h], Bits: bits, Nonce: rng.Uint32()}
			cum = new(big.Int).Add(cum, hdr.WorkOfBits(bits))
			tab = append(tab, TW{T: times[h], W: cum})
			switch {
			case h == 0:
				root, _ = headers.NewBranch(nil, -1, hd)
				cur = root
			case h == forkAt+1 && onChild:
				// continue on a child branch hanging off the root at forkAt (plus a decoy sibling on the root)
				// in two of three chains the root has already grown past the fork point when the child
				// branch is created (a fork below the parent's tip), otherwise it grows afterwards
				dprev, nDecoy, before := prev, 1+rng.Intn(3), rng.Intn(3) > 0
				addDecoys := func() {
					for i := 0; i < nDecoy; i++ {
						decoy := &wire.BlockHeader{Version: 2, PrevBlock: dprev, Timestamp: times[h] + 7 + uint32(i), Bits: bits}
						cur.Add(decoy)
						dprev = *decoy.BlockHash()
					}
				}
				if before {
					addDecoys()
					s.count("daa/child-branch-forks-below-parent-tip")
				}
				nb, err := headers.NewBranch(cur, forkAt, hd)
				if err != nil {
					s.run.Inconclusive("new-branch-failed")
					return
				}
				if !before {
					addDecoys()
				}
				cur = nb
			default:
				if !cur.Add(hd) {
					s.run.Inconclusive("branch-add-failed")
					return
				}
			}
			prev = *hd.BlockHash()
		}
		s.run.DistinctStr(fmt.Sprintf("daa/%s/%d/%v/%d", regime, n, onChild, forkAt))
	})
}

func lastN(t []uint32, n int) []uint32 {
	if len(t) > n {
		return t[len(t)-n:]
	}
	return t
}

func lastBits(tab []TW, h int) string { return fmt.Sprintf("%d headers", h) }

// daaCause attributes a disagreement to the separable causes named in the property.
func daaCause(get func(h int) TW, h int) string {
	if a, b := RefDAA(get, h); a != b {
		return "inversion-rounding"
	}
	last := suitable(get, h-1)
	first := suitable(get, h-145)
	ts := int64(last.T) - int64(first.T)
	cause := ""
	if ts < 0 {
		cause += "negative-timespan"
	}
	// would a stable sort pick a different median?
	stable := func(hh int) TW {
		b := []TW{get(hh - 2), get(hh - 1), get(hh)}
		for i := 1; i < 3; i++ {
			for j := i; j > 0 && b[j].T < b[j-1].T; j-- {
				b[j], b[j-1] = b[j-1], b[j]
			}
		}
		return b[1]
	}
	if stable(h-1).W.Cmp(last.W) != 0 || stable(h-145).W.Cmp(first.W) != 0 {
		if cause != "" {
			cause += "+"
		}
		cause += "median-tie-order"
	}
	if cause == "" {
		switch {
		case ts > 288*600-600 && ts < 288*600+600:
			cause = "upper-clamp-boundary"
		case ts > 72*600-600 && ts < 72*600+600:
			cause = "lower-clamp-boundary"
		default:
			cause = "other"
		}
	}
	return cause
}

// RunC02 runs the three monitors.
func RunC02(tier string, seed int64) int {
	ctx := common.QuietCtx()
	run := common.NewRun("C02", tier, seed, "exploration")
	run.Rule = "three monitors: (1) every exponent byte x mantissa classes x {child of genesis, child of a real-chain tip above the DAA activation, orphan} through ProcessHeader with difficulty enabled, nonce ground where the target allows; (2) Branch.Target vs a reference cw-144 implementation on synthetic chains (regular, ties in all weak orderings, decreasing, far-future, random walk; root and child branches); (3) both real-chain fixtures replayed with difficulty enabled plus single-field mutants of real headers; (4) real headers submitted while a made-up competing branch (other timestamps, hence other required bits) is the most-work branch: they extend a side branch and must be judged on it. distinct = distinct (exponent,class,placement) / (fixture,height,mutation) / chain descriptors"
	run.Assumptions = []string{
		"reference DAA transcribed from the node implementation (median-of-3 swap network, signed clamped timespan, W*600/ts, (2^256-W)/W); it is validated against the real headers in the fixtures on every run",
		"the work->target inversion is (2^256-W)/W as in the node implementation; it is the only one of the two candidate formulas under which a chain with steady difficulty and exact spacing keeps its bits (fixed point), and both real-chain fixtures agree with it (DESIGN.md C02 iii)",
		"acceptance of an overflowing compact encoding below the activation height is recorded as observed behaviour, not a violation",
		"panics caught by recover() at the ProcessHeader boundary are process death in production (bare handler goroutine)"}
	s := &c02State{run: run, obs: map[string]int64{}}
	fx7, err := LoadFixture("headers_725000.txt")
	if err != nil {
		fmt.Println("cannot load fixture:", err)
		return 2
	}
	fx5, err := LoadFixture("headers_556000.txt")
	if err != nil {
		fmt.Println("cannot load fixture:", err)
		return 2
	}
	rounds, chains, mutEvery := 6, 360, 12
	if tier == "thorough" {
		rounds, chains, mutEvery = 200, 24000, 1
	}
	s.bitsRobustness(ctx, fx7, rounds)
	s.daaDifferential(ctx, chains)
	ownBranch := 24
	if tier == "thorough" {
		ownBranch = 600
	}
	s.ownBranch(ctx, fx7, "headers_725000", ownBranch)
	s.ownBranch(ctx, fx5, "headers_556000", ownBranch)
	var wg sync.WaitGroup
	wg.Add(2)
	go func() { defer wg.Done(); s.realChain(ctx, fx5, "headers_556000", mutEvery, 91) }()
	go func() { defer wg.Done(); s.realChain(ctx, fx7, "headers_725000", mutEvery, 92) }()
	wg.Wait()
	run.Extra("observations", s.obs)
	return run.Finish()
}

// ownBranch: the required bits are those of the header's own branch. A real chain prefix is
// loaded, a made-up competing branch with a different timestamp pattern (added with the checks
// off, as the repository's own tests do) becomes the most-work branch, the checks are switched
// back on and the next real headers -- which now extend a side branch -- must still be accepted.
func (s *c02State) ownBranch(ctx context.Context, fx *Fixture, name string, n int) {
	common.ParallelFor(n, runtime.NumCPU(), func(ci int) {
		rng := common.Rng(s.run.Seed, int64(97000+ci))
		lo := 300
		if fx.Height+lo < daaActivation+150 {
			lo = daaActivation + 150 - fx.Height
		}
		if lo+30 >= len(fx.Headers) {
			return
		}
		k := lo + rng.Intn(len(fx.Headers)-lo-12) // first real header withheld
		repo, err := NewFixtureRepo(ctx, fx, k)
		if err != nil {
			s.run.Inconclusive("own-branch: fixture repo: " + err.Error())
			return
		}
		d := 1 + rng.Intn(10) // the competing branch forks d headers below the real tip
		parent := fx.Headers[k-1-d]
		step := []uint32{1, 30, 150, 2400, 7200}[rng.Intn(5)]
		repo.DisableDifficulty()
		prev, ts := *parent.BlockHash(), parent.Timestamp
		extra := 1 + rng.Intn(6)
		for i := 0; i < d+extra; i++ {
			ts += step
			hd := &wire.BlockHeader{Version: 1, PrevBlock: prev, Timestamp: ts, Bits: parent.Bits, Nonce: rng.Uint32()}
			if e := repo.ProcessHeader(ctx, hd); e != nil {
				s.run.Inconclusive("own-branch: competing branch refused: " + e.Error())
				return
			}
			prev = *hd.BlockHash()
		}
		if repo.LastHash() != prev {
			s.run.Inconclusive("own-branch: competing branch did not become the most-work branch")
			return
		}
		repo.EnableDifficulty()
		for i := k; i < k+6 && i < len(fx.Headers); i++ {
			real := fx.Headers[i]
			height := fx.Height + i
			var perr error
			pan := safe(func() { perr = repo.ProcessHeader(ctx, real) })
			s.run.Eval(1)
			s.count("real-headers-submitted-onto-a-side-branch")
			w := map[string]interface{}{"kind": "own-branch", "fixture": name, "real_prefix": k, "fork_below_tip": d, "competing_headers": d + extra,
				"competing_spacing_s": step, "real_header_index": i, "seed": s.run.Seed}
			if pan != "" || perr != nil {
				s.run.Violate(common.Violation{Clause: "bits-equal-daa-on-own-branch", Signature: "real-header-refused-on-side-branch/" + classify(perr),
					Detail: fmt.Sprintf("real mainnet header %d extends the real branch while a made-up branch (spacing %d s) is the most-work branch: refused panic=%q err=%v", height, step, pan, perr), Witness: w})
				return
			}
			if h := repo.HashHeight(*real.BlockHash()); h != height {
				s.run.Violate(common.Violation{Clause: "every-real-header-accepted", Signature: "real-header-on-side-branch-not-stored",
					Detail: fmt.Sprintf("height %d reported %d", height, h), Witness: w})
				return
			}
		}
		s.run.DistinctStr(fmt.Sprintf("own-branch/%s/%d/%d/%d", name, d, extra, step))
	})
}
