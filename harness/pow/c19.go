package pow

import (
	"context"
	"fmt"

	"verifharness/common"
	"verifharness/hdr"

	"github.com/tokenized/bitcoin_reader/headers"
	"github.com/tokenized/pkg/bitcoin"
	"github.com/tokenized/pkg/storage"
)

var _ = storage.ErrNotFound

// C19Fixture sweeps the real chain around the split height: locator well-formedness at every tip
// and what a protocol-conformant peer on the same chain / on the BCH fork would reply.
func C19Fixture(ctx context.Context, run *common.Run) {
	fx, err := LoadFixture("headers_556000.txt")
	if err != nil {
		run.Inconclusive("fixture: " + err.Error())
		return
	}
	splitBefore := map[bitcoin.Hash32]int{}
	for s, h := range map[string]int{"0000000000000000011865af4122fe3b144e2cbeea86142e8ff2fb4107352d43": 478558,
		"00000000000000000102d94fde9bd0807a2cc7582fe85dd6349b73ce4e8d9322": 556766} {
		x, _ := bitcoin.NewHash32FromStr(s)
		splitBefore[*x] = h
	}
	repo := headers.NewRepository(headers.DefaultConfig(), common.NewMemStore())
	repo.DisableDifficulty()
	heightOf := map[bitcoin.Hash32]int{}
	bch := BCHSplitHeader(*fx.Headers[766].BlockHash())
	maxes := []int{1, 2, 3, 10, 50, 500}
	for i, hd := range fx.Headers {
		height := fx.Height + i
		heightOf[*hd.BlockHash()] = height
		if i == 0 {
			repo.MockLatest(ctx, hd, fx.Height, fx.Work)
		} else if err := repo.ProcessHeader(ctx, hd); err != nil {
			run.Inconclusive(fmt.Sprintf("fixture header %d refused: %v", height, err))
			return
		}
		if i < 2 || !(i < 60 || (i > 700 && i < 900) || i%97 == 0) {
			continue
		}
		for _, mx := range maxes {
			var loc []bitcoin.Hash32
			var lerr error
			pan := safe(func() { loc, lerr = repo.GetLocatorHashes(ctx, mx) })
			run.Eval(1)
			run.DistinctStr(fmt.Sprintf("fixture-locator/%d/%d", height, mx))
			w := map[string]interface{}{"kind": "fixture-locator", "tip_height": height, "max": mx}
			if pan != "" || lerr != nil {
				run.Violate(common.Violation{Clause: "locator-returned", Signature: "fixture-locator-fails", Detail: fmt.Sprintf("%v %v", pan, lerr), Witness: w})
				continue
			}
			seen := map[bitcoin.Hash32]bool{}
			var bestHeights []int
			for _, h := range loc {
				if seen[h] {
					run.Violate(common.Violation{Clause: "no-hash-twice", Signature: "locator-duplicate/real-chain",
						Detail: fmt.Sprintf("tip %d max %d: %s listed twice", height, mx, h), Witness: w})
					break
				}
				seen[h] = true
				if ht, ok := heightOf[h]; ok {
					bestHeights = append(bestHeights, ht)
				} else if _, ok := splitBefore[h]; !ok {
					run.Violate(common.Violation{Clause: "locator-membership", Signature: "locator-foreign-hash/real-chain",
						Detail: fmt.Sprintf("tip %d max %d: %s", height, mx, h), Witness: w})
				}
			}
			if len(bestHeights) == 0 || bestHeights[0] != height-1 {
				run.Violate(common.Violation{Clause: "begins-with-tip-parent", Signature: "locator-first-height/real-chain",
					Detail: fmt.Sprintf("tip %d max %d: best-chain heights %v", height, mx, bestHeights), Witness: w})
				continue
			}
			for k := 1; k < len(bestHeights); k++ {
				if bestHeights[k] >= bestHeights[k-1] {
					run.Violate(common.Violation{Clause: "newest-first", Signature: "locator-order/real-chain", Detail: fmt.Sprint(bestHeights), Witness: w})
					break
				}
			}
			// the 556766 hash is both a best-chain header and a split fork point: it may be added
			// beyond max as a fork point
			nb := len(bestHeights)
			for _, h := range loc {
				if _, ok := splitBefore[h]; ok {
					if _, ok2 := heightOf[h]; ok2 {
						nb--
					}
				}
			}
			if nb > mx {
				run.Violate(common.Violation{Clause: "count-within-max", Signature: "locator-too-many/real-chain",
					Detail: fmt.Sprintf("tip %d max %d: %d best-chain hashes", height, mx, nb), Witness: w})
			}
			// conformant peer on the same chain: first locator hash on its chain, reply starts after it
			first := -1
			for _, h := range loc {
				if ht, ok := heightOf[h]; ok {
					first = ht
					break
				}
			}
			if first != height-1 {
				run.Violate(common.Violation{Clause: "same-chain-peer-replies-with-our-tip", Signature: "same-chain-reply-does-not-start-at-tip",
					Detail: fmt.Sprintf("tip %d max %d: a peer with our chain matches height %d first", height, mx, first), Witness: w})
			} else {
				reply := fx.Headers[first+1-fx.Height]
				if err := repo.ProcessHeader(ctx, reply); err != nil {
					run.Violate(common.Violation{Clause: "reply-connects", Signature: "same-chain-reply-refused/" + classify(err), Detail: err.Error(), Witness: w})
				}
			}
			// a peer on the BCH fork (shares our chain up to 556766): its first match is the highest
			// locator hash at or below 556766; above the split that must be the fork point itself
			if height > splitHeight {
				m := -1
				for _, h := range loc {
					ht, ok := heightOf[h]
					if !ok {
						ht, ok = splitBefore[h]
					}
					if ok && ht <= 556766 && ht >= fx.Height {
						m = ht
						break
					}
				}
				if m != 556766 && mx >= 2 {
					run.Count("bch-peer-first-match-below-fork-point", 1)
				}
				if m == 556766 {
					err := repo.ProcessHeader(ctx, bch)
					if classify(err) != "wrongchain" {
						run.Violate(common.Violation{Clause: "reply-connects", Signature: "bch-fork-reply/" + classify(err),
							Detail: fmt.Sprintf("tip %d: the BCH peer's reply (its split header) was answered %v", height, err), Witness: w})
					}
					run.Count("bch-peer-replies-with-its-split-header", 1)
				}
			}
		}
	}
	// verify-only locator: exactly the configured fork points, once each
	for _, net := range []bitcoin.Network{bitcoin.MainNet, bitcoin.TestNet} {
		r := headers.NewRepository(&headers.Config{Network: net, MaxBranchDepth: 144}, common.NewMemStore())
		r.InitializeWithGenesis()
		loc, err := r.GetVerifyOnlyLocatorHashes(ctx)
		run.Eval(1)
		w := map[string]interface{}{"kind": "verify-only-locator", "network": fmt.Sprint(net)}
		if err != nil {
			run.Violate(common.Violation{Clause: "verify-only-locator", Signature: "verify-only-locator-fails", Witness: w})
			continue
		}
		seen := map[bitcoin.Hash32]bool{}
		for _, h := range loc {
			if seen[h] {
				run.Violate(common.Violation{Clause: "no-hash-twice", Signature: "verify-only-locator-duplicate", Detail: h.String(), Witness: w})
			}
			seen[h] = true
			if _, ok := splitBefore[h]; !ok {
				run.Violate(common.Violation{Clause: "verify-only-locator", Signature: "verify-only-locator-foreign-hash", Detail: h.String(), Witness: w})
			}
		}
		want := 0
		if net == bitcoin.MainNet {
			want = 2
		}
		if len(seen) != want {
			run.Violate(common.Violation{Clause: "verify-only-locator", Signature: "verify-only-locator-count",
				Detail: fmt.Sprintf("network %v: %d distinct fork points, want %d", net, len(seen), want), Witness: w})
		}
	}
	_ = hdr.MainGenesis
}
