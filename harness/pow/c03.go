package pow

import (
	"context"
	"fmt"
	"math/rand"
	"runtime"

	"verifharness/common"
	"verifharness/hdr"

	"github.com/pkg/errors"
	"github.com/tokenized/bitcoin_reader/headers"
	"github.com/tokenized/pkg/bitcoin"
	"github.com/tokenized/pkg/wire"
)

const splitHeight = 556767

// BCHSplitHeader is the first BCH-only header (fields from the repository's own test; the hash is
// asserted against the split table value at run time).
func BCHSplitHeader(prev bitcoin.Hash32) *wire.BlockHeader {
	mr, _ := bitcoin.NewHash32FromStr("1cf31105bd6b1b4dba9ae55290ec06fff15b4567ec62a6e3863409bb3efd1944")
	return &wire.BlockHeader{Version: 0x20000000, PrevBlock: prev, MerkleRoot: *mr, Timestamp: 1542304936,
		Bits: 402792411, Nonce: 3911120513}
}

var (
	bchSplitHash, _ = bitcoin.NewHash32FromStr("0000000000000000004626ff6e3b936941d341c5932ece4357eeccac44e6d56c")
	bsvSplitHash, _ = bitcoin.NewHash32FromStr("000000000000000001d956714215d96ffc00e0afda4cd0a96c96f8d802b1662b")
)

// C03Repo runs the repository-side scenarios of C03 and reports into run.
func C03Repo(ctx context.Context, run *common.Run, nScenarios int) {
	fx, err := LoadFixture("headers_556000.txt")
	if err != nil {
		run.Inconclusive("fixture: " + err.Error())
		return
	}
	bsv := fx.Headers[767]
	if !bsv.BlockHash().Equal(bsvSplitHash) {
		run.Inconclusive("fixture header 767 is not the BSV split header")
		return
	}
	bch := BCHSplitHeader(*fx.Headers[766].BlockHash())
	if !bch.BlockHash().Equal(bchSplitHash) {
		run.Inconclusive("BCH split header does not hash to the split table entry")
		return
	}
	viol := func(clause, sig, detail string, w interface{}) {
		run.Violate(common.Violation{Clause: clause, Signature: sig, Detail: detail, Witness: w})
	}

	common.ParallelFor(nScenarios, runtime.NumCPU(), func(si int) {
		rng := common.Rng(run.Seed, int64(7000+si))
		mode := []string{"main-chain", "fork-below-split", "difficulty-disabled", "orphan-first", "fork-below-split-difficulty-disabled"}[si%5]
		// bootstrap to 556766
		repo, err := NewFixtureRepo(ctx, fx, 767)
		if err != nil {
			run.Inconclusive("bootstrap: " + err.Error())
			return
		}
		store := (*common.MemStore)(nil)
		_ = store
		w := map[string]interface{}{"kind": "split-scenario", "mode": mode, "scenario": si}
		offered := []*wire.BlockHeader{}
		classOf := func(hd *wire.BlockHeader) string {
			var err error
			pan := safe(func() { err = repo.ProcessHeader(ctx, hd) })
			run.Eval(1)
			if pan != "" {
				viol("never-crashes", "split-offer-panics/"+mode, pan, w)
				return "panic"
			}
			return classify(err)
		}
		tipParent := fx.Headers[766]
		parentHash := *tipParent.BlockHash()
		parentTime := tipParent.Timestamp

		if mode == "fork-below-split-difficulty-disabled" {
			// proof of work is what keeps a forged fork out in production; with the check disabled
			// (as a chain with real work would pass it) the split rule alone must refuse the header
			repo.DisableDifficulty()
		}
		switch mode {
		case "fork-below-split", "fork-below-split-difficulty-disabled":
			// build a fork from 556766-k with easy-bits headers (accepted below the activation
			// height when their proof of work is valid), up to height 556766
			k := 1 + rng.Intn(40)
			base := fx.Headers[766-k]
			prev := *base.BlockHash()
			ts := base.Timestamp
			okFork := true
			for h := 0; h < k; h++ {
				hd := &wire.BlockHeader{Version: 0x20000000, PrevBlock: prev, Timestamp: ts + 600, Bits: 0x207fffff, Nonce: rng.Uint32()}
				rng.Read(hd.MerkleRoot[:])
				if mode == "fork-below-split" && !grind(hd, 4000) {
					okFork = false
					break
				}
				c := classOf(hd)
				if c != "ok" {
					okFork = false
					run.Count("fork-below-split/fork-header-refused/"+c, 1)
					break
				}
				prev = *hd.BlockHash()
				ts = hd.Timestamp
			}
			if !okFork {
				return
			}
			parentHash, parentTime = prev, ts
			run.Count(mode+"/forks-built", 1)
		case "after-clean":
			if err := repo.Clean(ctx); err != nil {
				viol("maintenance", "clean-fails-at-split", err.Error(), w)
				return
			}
		case "after-save-load":
			// Save then Load into a fresh repository on the same storage
			// (NewFixtureRepo uses a MemStore we cannot reach; rebuild with our own store)
			st := common.NewMemStore()
			r2 := headers.NewRepository(headers.DefaultConfig(), st)
			r2.DisableDifficulty()
			for i := 0; i < 767; i++ {
				if i == 0 {
					r2.MockLatest(ctx, fx.Headers[0], fx.Height, fx.Work)
				} else if err := r2.ProcessHeader(ctx, fx.Headers[i]); err != nil {
					run.Inconclusive("bootstrap2: " + err.Error())
					return
				}
			}
			r2.EnableDifficulty()
			if err := r2.Save(ctx); err != nil {
				run.Count("after-save-load/save-failed(mock-latest-base)", 1)
				return
			}
			r3 := headers.NewRepository(headers.DefaultConfig(), st)
			if err := r3.Load(ctx); err != nil {
				run.Count("after-save-load/load-failed(mock-latest-base)", 1)
				return
			}
			if r3.Height() != 556766 {
				run.Count("after-save-load/loaded-height-differs(mock-latest-base)", 1)
				return
			}
			repo = r3
		case "difficulty-disabled":
			repo.DisableDifficulty()
		}

		// 1. the BCH split header, offered first in some modes (as a child of the right parent on
		// the main chain, and as an orphan)
		offerBCH := func(tag string) {
			c := classOf(bch)
			run.Count("bch-header/"+mode+"/"+tag+"/"+c, 1)
			if c != "wrongchain" {
				viol("foreign-split-headers-refused-as-wrong-chain", "bch-split-header/"+c+"/"+mode+"/"+tag,
					fmt.Sprintf("BCH split header answered %q (%s)", c, tag), w)
			}
			if c == "ok" {
				viol("foreign-split-headers-refused-as-wrong-chain", "bch-split-header-accepted/"+mode, "", w)
			}
		}
		// orphan form: a repository that does not hold the parent
		orphanRepo := headers.NewRepository(headers.DefaultConfig(), common.NewMemStore())
		orphanRepo.InitializeWithGenesis()
		{
			var err error
			pan := safe(func() { err = orphanRepo.ProcessHeader(ctx, bch) })
			run.Eval(1)
			if pan != "" || errors.Cause(err) != headers.ErrWrongChain {
				viol("foreign-split-headers-refused-as-wrong-chain", "bch-split-header-as-orphan/"+classify(err), fmt.Sprintf("panic=%q err=%v", pan, err), w)
			}
		}
		if mode == "orphan-first" || si%2 == 0 {
			offerBCH("before-bsv")
		}

		// 2. many other headers at the split height on this branch
		n := 40
		for i := 0; i < n; i++ {
			var hd *wire.BlockHeader
			kind := ""
			switch rng.Intn(5) {
			case 0:
				kind = "random-fields"
				hd = &wire.BlockHeader{Version: int32(rng.Uint32()), PrevBlock: parentHash, Timestamp: rng.Uint32(), Bits: rng.Uint32(), Nonce: rng.Uint32()}
				rng.Read(hd.MerkleRoot[:])
			case 1:
				kind = "bsv-header-one-field-changed"
				c := bsv.Copy()
				switch rng.Intn(5) {
				case 0:
					c.Version ^= 1 << uint(rng.Intn(29))
				case 1:
					c.MerkleRoot[rng.Intn(32)] ^= 1
				case 2:
					c.Timestamp++
				case 3:
					c.Nonce++
				case 4:
					c.Bits ^= 1
				}
				c.PrevBlock = parentHash
				hd = &c
			case 2:
				kind = "easy-bits-ground"
				hd = &wire.BlockHeader{Version: 0x20000000, PrevBlock: parentHash, Timestamp: parentTime + 600, Bits: 0x207fffff, Nonce: rng.Uint32()}
				rng.Read(hd.MerkleRoot[:])
				grind(hd, 4000)
			case 3:
				kind = "required-bits-no-work"
				hd = &wire.BlockHeader{Version: 0x20000000, PrevBlock: parentHash, Timestamp: parentTime + 600, Bits: bsv.Bits, Nonce: rng.Uint32()}
				rng.Read(hd.MerkleRoot[:])
			default:
				kind = "bch-fields-other-nonce"
				c := BCHSplitHeader(parentHash)
				c.Nonce = rng.Uint32()
				hd = c
			}
			if hd.BlockHash().Equal(bsvSplitHash) {
				continue
			}
			c := classOf(hd)
			offered = append(offered, hd)
			run.Count("offer-at-split-height/"+mode+"/"+kind+"/"+c, 1)
			run.DistinctStr(mode + "/" + kind + "/" + c)
			if c == "ok" {
				viol("only-bsv-split-header-accepted-at-split-height", "non-bsv-header-accepted-at-split-height/"+mode+"/"+kind,
					fmt.Sprintf("header %s accepted at height %d (mode %s, kind %s)", hd.BlockHash(), splitHeight, mode, kind),
					map[string]interface{}{"kind": "split-scenario", "mode": mode, "scenario": si, "header": hdr.HdrHex(hd)})
			}
		}
		if si%2 == 1 {
			offerBCH("after-others")
		}

		// 3. the BSV split header itself is accepted on the main chain
		if mode != "fork-below-split" && mode != "fork-below-split-difficulty-disabled" {
			c := classOf(bsv)
			run.Count("bsv-header/"+mode+"/"+c, 1)
			if c != "ok" {
				viol("bsv-split-header-accepted", "bsv-split-header-refused/"+c+"/"+mode, "", w)
			} else if repo.Height() != splitHeight || repo.LastHash() != *bsvSplitHash {
				viol("bsv-split-header-accepted", "bsv-split-header-not-tip/"+mode, "", w)
			}
			offerBCH("after-bsv")
		}

		// 4. nothing but the BSV header is known at the split height
		for _, hd := range offered {
			if h := repo.HashHeight(*hd.BlockHash()); h != -1 {
				viol("only-bsv-split-header-accepted-at-split-height", "refused-header-known-afterwards/"+mode,
					fmt.Sprintf("%s has height %d", hd.BlockHash(), h), w)
			}
		}
		if h := repo.HashHeight(*bchSplitHash); h != -1 {
			viol("foreign-split-headers-refused-as-wrong-chain", "bch-split-header-known/"+mode, "", w)
		}
		if hh, err := repo.Hash(ctx, splitHeight); mode != "fork-below-split" && mode != "fork-below-split-difficulty-disabled" && (err != nil || !hh.Equal(bsvSplitHash)) {
			viol("bsv-split-header-accepted", "hash-at-split-height-not-bsv/"+mode, fmt.Sprintf("%v %v", hh, err), w)
		}

		// 5. VerifyHeader table
		vt := []struct {
			name string
			hd   *wire.BlockHeader
			want string
		}{
			{"bsv", bsv, "ok"},
			{"bch", bch, "wrongchain"},
			{"child-of-genesis", &wire.BlockHeader{Version: 1, PrevBlock: *hdr.MainGenesis().BlockHash(), Bits: 0x1d00ffff}, "error"},
			{"random", &wire.BlockHeader{Version: 1, Nonce: rng.Uint32(), Bits: 0x1d00ffff}, "error"},
		}
		mut := bsv.Copy()
		mut.Nonce ^= 1 << uint(rng.Intn(32))
		vt = append(vt, struct {
			name string
			hd   *wire.BlockHeader
			want string
		}{"bsv-mutated", &mut, "error"})
		for _, c := range vt {
			var err error
			pan := safe(func() { err = repo.VerifyHeader(ctx, c.hd) })
			run.Eval(1)
			got := classify(err)
			ok := pan == "" && ((c.want == "ok" && err == nil) || (c.want == "wrongchain" && got == "wrongchain") || (c.want == "error" && err != nil))
			if !ok {
				viol("verification-only-by-bsv-split-header", "verifyheader/"+c.name+"/"+got, fmt.Sprintf("VerifyHeader(%s) panic=%q err=%v", c.name, pan, err), w)
			}
		}
		if si < 2 {
			run.Sample(map[string]interface{}{"mode": mode, "offered_at_split_height": len(offered), "example": hdr.HdrHex(offered[0])})
		}
	})
	_ = rand.Int
	if run.Tier == "thorough" {
		c03Reattached(ctx, run)
	}
}

// c03Reattached (thorough tier; the fixture repository starts from a mocked base that Clean cannot
// consolidate, so this history is built from genesis with made-up headers, checks off, split
// protection on): three branches reach height 556766 -- the root chain, a fork B with more work
// (the best chain) and a fork C -- Clean re-attaches the root chain's rest and C under the new main
// branch, and then no header may be accepted at 556767 on any of the three tips.
func c03Reattached(ctx context.Context, run *common.Run) {
	common.ParallelFor(3, 3, func(vi int) {
		rng := common.Rng(run.Seed, int64(7900+vi))
		repo := headers.NewRepository(headers.DefaultConfig(), common.NewMemStore())
		repo.DisableDifficulty()
		repo.InitializeWithGenesis()
		type pt struct {
			hash bitcoin.Hash32
			ts   uint32
		}
		g := hdr.MainGenesis()
		chain := []pt{{*g.BlockHash(), g.Timestamp}}
		extend := func(from pt, n int, bits uint32) (pt, bool) {
			for i := 0; i < n; i++ {
				hd := &wire.BlockHeader{Version: 1, PrevBlock: from.hash, Timestamp: from.ts + 600, Bits: bits, Nonce: rng.Uint32()}
				rng.Read(hd.MerkleRoot[:])
				if err := repo.ProcessHeader(ctx, hd); err != nil {
					run.Inconclusive("reattached-forks: build: " + err.Error())
					return from, false
				}
				from = pt{*hd.BlockHash(), hd.Timestamp}
			}
			return from, true
		}
		tip := chain[0]
		for h := 1; h <= splitHeight-1; h++ {
			var ok bool
			if tip, ok = extend(tip, 1, 0x1d00ffff); !ok {
				return
			}
			chain = append(chain, tip)
		}
		kb := 6 + rng.Intn(8)
		bTip, ok := extend(chain[splitHeight-1-kb], kb, 0x1c00ffff)
		if !ok || repo.LastHash() != bTip.hash {
			run.Inconclusive("reattached-forks: fork B did not become the best chain")
			return
		}
		kc := 2 + rng.Intn(kb-2)
		cTip, ok := extend(chain[splitHeight-1-kc], kc, 0x1d00ffff)
		if !ok {
			return
		}
		if err := repo.Clean(ctx); err != nil {
			run.Violate(common.Violation{Clause: "maintenance", Signature: "clean-fails-at-split/reattached-forks", Detail: err.Error()})
			return
		}
		for name, p := range map[string]pt{"root-chain-tip": chain[splitHeight-1], "fork-b-tip": bTip, "fork-c-tip": cTip} {
			for i := 0; i < 10; i++ {
				hd := &wire.BlockHeader{Version: 0x20000000, PrevBlock: p.hash, Timestamp: p.ts + 600, Bits: 0x1d00ffff, Nonce: rng.Uint32()}
				rng.Read(hd.MerkleRoot[:])
				var err error
				pan := safe(func() { err = repo.ProcessHeader(ctx, hd) })
				run.Eval(1)
				run.DistinctStr("reattached-forks/" + name + "/" + classify(err))
				if pan != "" || err == nil {
					run.Violate(common.Violation{Clause: "only-bsv-split-header-accepted-at-split-height", Signature: "non-bsv-header-accepted-at-split-height/reattached-forks/" + name,
						Detail:  fmt.Sprintf("a made-up header was accepted at height %d on the %s after Clean re-attached the branches (panic=%q)", splitHeight, name, pan),
						Witness: map[string]interface{}{"kind": "split-scenario", "mode": "reattached-forks-after-clean", "branch": name, "fork_b_length": kb, "fork_c_length": kc, "seed": run.Seed}})
					break
				}
			}
		}
	})
}

// RunC03 runs the repository-side scenarios (the peer-side part is added by the net package).
func RunC03(tier string, seed int64, peerPart func(ctx context.Context, run *common.Run, tier string)) int {
	ctx := common.QuietCtx()
	run := common.NewRun("C03", tier, seed, "exploration")
	run.Rule = "repository side: real chain replayed to 556766, then at height 556767 the BSV header, the BCH split header (child / orphan / after Clean / after Save+Load) and generated headers (random fields, BSV header with one field changed, easy bits with ground nonce, required bits without work) on the main chain and on forks built below the split; peer side: scripted replies to the verification request. distinct = (mode, header kind, verdict)"
	run.Assumptions = []string{"the BTC split header (height 478559) cannot be offered: its 80-byte pre-image is not available offline; the BTC table entry shares the code path of the BCH entry",
		"fixture headers_556000.txt holds the real chain around the split"}
	n := 100
	if tier == "thorough" {
		n = 3000
	}
	C03Repo(ctx, run, n)
	if peerPart != nil {
		peerPart(ctx, run, tier)
	}
	return run.Finish()
}
