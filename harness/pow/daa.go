// Package pow holds the reference difficulty algorithm and the C02 / C03 repository-side checks.
package pow

import (
	"math/big"

	"verifharness/hdr"
)

var (
	two256   = new(big.Int).Lsh(big.NewInt(1), 256)
	powLimit = new(big.Int).Lsh(big.NewInt(0xffff), 208)
)

// TW is the (timestamp, cumulative work) of one header.
type TW struct {
	T uint32
	W *big.Int
}

// suitable is the network's median-of-three block selection (three-swap sorting network over
// the blocks at h-2, h-1, h, compared by timestamp only).
func suitable(get func(h int) TW, h int) TW {
	b := [3]TW{get(h - 2), get(h - 1), get(h)}
	if b[0].T > b[2].T {
		b[0], b[2] = b[2], b[0]
	}
	if b[0].T > b[1].T {
		b[0], b[1] = b[1], b[0]
	}
	if b[1].T > b[2].T {
		b[1], b[2] = b[2], b[1]
	}
	return b[1]
}

// RefDAA returns the compact bits the cw-144 algorithm requires for a header at height h, given
// the headers below it. Two values are returned: with the network's work->target inversion
// (2^256-W)/W, and with floor(2^256/(W+1)); they differ only on a compact rounding boundary.
// The first is what this reference believes the network computes; see DESIGN.md C02 (iii).
func RefDAA(get func(h int) TW, h int) (uint32, uint32) {
	last := suitable(get, h-1)
	first := suitable(get, h-145)
	work := new(big.Int).Sub(last.W, first.W)
	work.Mul(work, big.NewInt(600))
	ts := int64(last.T) - int64(first.T)
	if ts < 72*600 {
		ts = 72 * 600
	}
	if ts > 288*600 {
		ts = 288 * 600
	}
	work.Div(work, big.NewInt(ts))
	if work.Sign() == 0 {
		return 0x1d00ffff, 0x1d00ffff
	}
	a := new(big.Int).Sub(two256, work)
	a.Div(a, work)
	b := new(big.Int).Div(two256, new(big.Int).Add(work, big.NewInt(1)))
	enc := func(t *big.Int) uint32 {
		if t.Cmp(powLimit) > 0 {
			return 0x1d00ffff
		}
		return hdr.RefTargetToCompact(t)
	}
	return enc(a), enc(b)
}
