package common

import (
	"os"
	"path/filepath"
	"regexp"
	"sort"
	"strings"
)

// RaceReport is one de-duplicated race-detector report.
type RaceReport struct {
	Key        string   `json:"key"` // pair of top /repo frames, line numbers stripped
	Count      int      `json:"count"`
	Access1    []string `json:"access1"`
	Access2    []string `json:"access2"`
	Attributed bool     `json:"attributed"`
}

var frameFileRe = regexp.MustCompile(`^\s+(/\S+\.go):(\d+)`)

// anchoredFiles lists, per property, the /repo files whose shared state the property is about.
var anchoredFiles = map[string][]string{
	"C01": {"headers/headers.go", "headers/branches.go", "headers/proof_of_work.go", "headers/handler.go"},
	"C03": {"bitcoin_node.go", "handlers.go", "messages.go"},
	"C04": {"block_downloader.go", "handlers.go", "bitcoin_node.go"},
	"C05": {"node_manager.go", "block_manager.go", "block_downloader.go"},
	"C06": {"tx_manager.go", "handlers.go", "node_manager.go", "bitcoin_node.go"},
	"C13": {"bitcoin_node.go", "handlers.go", "messages.go", "node_manager.go"},
	"C14": {"bitcoin_node.go", "handlers.go", "messages.go"},
	"C15": {"bitcoin_node.go", "handlers.go", "messages.go", "headers/headers.go", "headers/handler.go"},
	"C16": {"block_downloader.go", "block_manager.go", "bitcoin_node.go", "handlers.go"},
	"C20": {"peers.go"},
}

func parseAccess(lines []string) (funcs []string, files []string) {
	for i := 0; i+1 < len(lines); i++ {
		l := lines[i]
		if strings.HasPrefix(l, "  ") && !strings.HasPrefix(l, "      ") {
			fn := strings.TrimSpace(l)
			if j := strings.LastIndex(fn, "("); j > 0 {
				fn = fn[:j]
			}
			if m := frameFileRe.FindStringSubmatch(lines[i+1]); m != nil {
				funcs = append(funcs, fn)
				files = append(files, m[1])
			}
		}
	}
	return
}

// CollectRaceReports parses every log file with the given prefix.
func CollectRaceReports(prefix, prop string) []RaceReport {
	matches, _ := filepath.Glob(prefix + ".*")
	byKey := map[string]*RaceReport{}
	anch := anchoredFiles[prop]
	isAnch := func(file string) bool {
		if !strings.HasPrefix(file, RepoDir()+"/") {
			return false
		}
		rel := strings.TrimPrefix(file, RepoDir()+"/")
		for _, a := range anch {
			if rel == a {
				return true
			}
		}
		return false
	}
	for _, m := range matches {
		b, err := os.ReadFile(m)
		if err != nil {
			continue
		}
		for _, blk := range strings.Split(string(b), "WARNING: DATA RACE")[1:] {
			if i := strings.Index(blk, "=================="); i >= 0 {
				blk = blk[:i]
			}
			secs := strings.Split(strings.TrimLeft(blk, "\n"), "\n\n")
			if len(secs) < 2 {
				continue
			}
			f1, p1 := parseAccess(strings.Split(secs[0], "\n"))
			f2, p2 := parseAccess(strings.Split(secs[1], "\n"))
			top := func(fs, ps []string) (string, string) {
				for i, p := range ps {
					if strings.HasPrefix(p, RepoDir()+"/") {
						return fs[i], p
					}
				}
				if len(fs) > 0 {
					return fs[0], ps[0]
				}
				return "?", "?"
			}
			a1, file1 := top(f1, p1)
			a2, file2 := top(f2, p2)
			pair := []string{a1, a2}
			sort.Strings(pair)
			key := pair[0] + " <-> " + pair[1]
			r, ok := byKey[key]
			if !ok {
				r = &RaceReport{Key: key, Access1: head(f1, 6), Access2: head(f2, 6), Attributed: isAnch(file1) && isAnch(file2)}
				byKey[key] = r
			}
			r.Count++
		}
	}
	var out []RaceReport
	for _, r := range byKey {
		out = append(out, *r)
	}
	sort.Slice(out, func(i, j int) bool { return out[i].Key < out[j].Key })
	return out
}

func head(s []string, n int) []string {
	if len(s) > n {
		return s[:n]
	}
	return s
}
