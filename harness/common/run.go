package common

import (
	"context"
	"crypto/sha256"
	"encoding/hex"
	"encoding/json"
	"fmt"
	"math/rand"
	"os"
	"path/filepath"
	"sort"
	"strconv"
	"sync"
	"sync/atomic"
	"time"

	"github.com/tokenized/logger"
)

func VerifDir() string {
	if d := os.Getenv("VERIF_DIR"); d != "" {
		return d
	}
	return "/verif"
}

// RepoDir is the checkout of the repository the harness was built against.
func RepoDir() string {
	if d := os.Getenv("VERIF_REPO"); d != "" {
		return d
	}
	return "/repo"
}

// QuietCtx returns a context whose logger discards everything.
func QuietCtx() context.Context {
	return logger.ContextWithLogConfig(context.Background(), logger.NewEmptyConfig())
}

type KnownFinding struct {
	Property  string `json:"property"`
	Signature string `json:"signature"`
	What      string `json:"what"`
}

type FixedFinding struct {
	Property string `json:"property"`
	Commit   string `json:"commit"`
	What     string `json:"what"`
}

type KnownFindings struct {
	Open  []KnownFinding `json:"open"`
	Fixed []FixedFinding `json:"fixed"`
}

func LoadKnownFindings() *KnownFindings {
	kf := &KnownFindings{}
	b, err := os.ReadFile(filepath.Join(VerifDir(), "known_findings.json"))
	if err != nil {
		return kf
	}
	if err := json.Unmarshal(b, kf); err != nil {
		fmt.Fprintf(os.Stderr, "known_findings.json unreadable: %v\n", err)
	}
	return kf
}

type Violation struct {
	Clause    string      `json:"clause"`
	Signature string      `json:"signature"`
	Detail    string      `json:"detail"`
	Witness   interface{} `json:"witness,omitempty"`
}

// Run collects what one check execution observed and turns it into evidence + verdict lines.
type Run struct {
	Prop        string
	Tier        string
	Seed        int64
	Level       string
	Rule        string
	Assumptions []string
	MinDistinct int
	Phase       string // "" for the main phase; e.g. "race" for a second phase merged into the evidence

	start time.Time
	mu    sync.Mutex

	evals        int64
	distinct     map[uint64]struct{}
	samples      []interface{}
	maxSamples   int
	extras       map[string]interface{}
	counters     map[string]int64
	violations   map[string]*Violation // by signature
	vioCount     map[string]int
	kf           *KnownFindings
	kfHits       map[string]int
	inconclusive map[string]int
	exhaustive   *bool
	finished     bool
	lastActivity int64 // unix nanoseconds of the last Eval/Distinct/Violate/Inconclusive/Touch
	finishCode   int
	stalled      bool
}

func NewRun(prop, tier string, seed int64, level string) *Run {
	r := newRun(prop, tier, seed, level)
	r.Touch()
	r.StartStallWatch()
	return r
}

func newRun(prop, tier string, seed int64, level string) *Run {
	return &Run{
		Prop: prop, Tier: tier, Seed: seed, Level: level,
		MinDistinct:  2,
		start:        time.Now(),
		distinct:     make(map[uint64]struct{}),
		maxSamples:   6,
		extras:       make(map[string]interface{}),
		counters:     make(map[string]int64),
		violations:   make(map[string]*Violation),
		vioCount:     make(map[string]int),
		kf:           LoadKnownFindings(),
		kfHits:       make(map[string]int),
		inconclusive: make(map[string]int),
	}
}

func (r *Run) Eval(n int64) {
	r.mu.Lock()
	r.evals += n
	r.mu.Unlock()
	r.Touch()
}

// Touch marks progress for the no-progress watch (stall.go).
func (r *Run) Touch() { atomic.StoreInt64(&r.lastActivity, time.Now().UnixNano()) }

// Distinct records one non-trivial case by its canonical-shape key.
func (r *Run) Distinct(key uint64) {
	r.Touch()
	r.mu.Lock()
	r.distinct[key] = struct{}{}
	r.mu.Unlock()
}

func (r *Run) DistinctStr(s string) {
	h := sha256.Sum256([]byte(s))
	var k uint64
	for i := 0; i < 8; i++ {
		k = k<<8 | uint64(h[i])
	}
	r.Distinct(k)
}

func (r *Run) Sample(s interface{}) {
	r.mu.Lock()
	if len(r.samples) < r.maxSamples {
		r.samples = append(r.samples, s)
	}
	r.mu.Unlock()
}

func (r *Run) Count(name string, n int64) {
	r.mu.Lock()
	r.counters[name] += n
	r.mu.Unlock()
}

func (r *Run) Counter(name string) int64 {
	r.mu.Lock()
	defer r.mu.Unlock()
	return r.counters[name]
}

func (r *Run) Extra(name string, v interface{}) {
	r.mu.Lock()
	r.extras[name] = v
	r.mu.Unlock()
}

func (r *Run) SetExhaustive(b bool) {
	r.mu.Lock()
	r.exhaustive = &b
	r.mu.Unlock()
}

func (r *Run) Inconclusive(reason string) {
	r.Touch()
	r.mu.Lock()
	r.inconclusive[reason]++
	r.mu.Unlock()
}

// IsKnown reports whether a signature is an open known finding for this property.
func (r *Run) IsKnown(sig string) bool {
	for _, k := range r.kf.Open {
		if k.Property == r.Prop && k.Signature == sig {
			return true
		}
	}
	return false
}

// Violate records a violation. Returns true if it is a listed known finding.
func (r *Run) Violate(v Violation) bool {
	r.Touch()
	r.mu.Lock()
	defer r.mu.Unlock()
	known := false
	for _, k := range r.kf.Open {
		if k.Property == r.Prop && k.Signature == v.Signature {
			known = true
		}
	}
	if known {
		r.kfHits[v.Signature]++
		return true
	}
	r.vioCount[v.Signature]++
	if _, ok := r.violations[v.Signature]; !ok {
		vc := v
		r.violations[v.Signature] = &vc
	}
	return false
}

// Saturated reports that enough violations have been recorded; workloads stop exploring then, so
// that a badly broken tree is reported in minutes instead of exhausting every watchdog.
func (r *Run) Saturated() bool {
	r.mu.Lock()
	defer r.mu.Unlock()
	n := 0
	for _, c := range r.vioCount {
		n += c
	}
	return n >= 40 || r.stalled
}

func (r *Run) ViolationCount() int {
	r.mu.Lock()
	defer r.mu.Unlock()
	return len(r.violations)
}

func sigFile(prop, sig string) string {
	h := sha256.Sum256([]byte(sig))
	return fmt.Sprintf("%s-%s.json", prop, hex.EncodeToString(h[:6]))
}

// Finish writes the evidence file, prints verdict lines and returns the process exit code.
func (r *Run) Finish() int {
	r.mu.Lock()
	defer r.mu.Unlock()
	if r.finished {
		return r.finishCode
	}
	r.finished = true

	dir := VerifDir()
	os.MkdirAll(filepath.Join(dir, "evidence"), 0o755)
	os.MkdirAll(filepath.Join(dir, "replays"), 0o755)

	cov := map[string]interface{}{
		"evaluations":         r.evals,
		"distinct_nontrivial": len(r.distinct),
		"rule":                r.Rule,
		"samples":             r.samples,
	}
	if r.exhaustive != nil {
		cov["exhaustive"] = *r.exhaustive
	}
	for k, v := range r.extras {
		cov[k] = v
	}
	if len(r.counters) > 0 {
		cov["counters"] = r.counters
	}
	if len(r.inconclusive) > 0 {
		cov["inconclusive"] = r.inconclusive
	}
	if len(r.kfHits) > 0 {
		cov["known_findings_hit"] = r.kfHits
	}
	if len(r.samples) == 0 {
		cov["samples"] = []interface{}{}
	}

	// race detector reports of this process (the driver sets VERIF_RACE_LOG together with GORACE log_path)
	if prefix := os.Getenv("VERIF_RACE_LOG"); prefix != "" {
		reports := CollectRaceReports(prefix, r.Prop)
		attributed := 0
		for _, rep := range reports {
			if !rep.Attributed {
				continue
			}
			attributed++
			sig := "data-race/" + rep.Key
			known := false
			for _, k := range r.kf.Open {
				if k.Property == r.Prop && k.Signature == sig {
					known = true
				}
			}
			if known {
				r.kfHits[sig] += rep.Count
				continue
			}
			r.vioCount[sig] += rep.Count
			if _, ok := r.violations[sig]; !ok {
				r.violations[sig] = &Violation{Clause: "no-data-race-on-anchored-state", Signature: sig,
					Detail:  fmt.Sprintf("race detector: %v  <->  %v", rep.Access1, rep.Access2),
					Witness: map[string]interface{}{"kind": "race-report", "report": rep}}
			}
		}
		cov["race_detector"] = map[string]interface{}{"enabled": true, "distinct_reports": len(reports),
			"attributed_to_this_property": attributed, "reports": reports}
	}

	var sigs []string
	for s := range r.violations {
		sigs = append(sigs, s)
	}
	sort.Strings(sigs)
	var vioList []interface{}
	for _, s := range sigs {
		vioList = append(vioList, map[string]interface{}{
			"signature": s, "count": r.vioCount[s], "clause": r.violations[s].Clause,
			"detail": r.violations[s].Detail,
		})
	}
	if len(vioList) > 0 {
		cov["violation_signatures"] = vioList
	}

	ev := map[string]interface{}{
		"property_id": r.Prop,
		"tier":        r.Tier,
		"seed":        r.Seed,
		"level":       r.Level,
		"coverage":    cov,
		"assumptions": r.Assumptions,
		"wall_s":      time.Since(r.start).Seconds(),
		"violations":  len(r.violations),
	}
	if r.Assumptions == nil {
		ev["assumptions"] = []string{}
	}
	evPath := filepath.Join(dir, "evidence", r.Prop+".json")
	if r.Phase != "" {
		// second phase of a two-phase check: merge into the evidence written by the main phase
		if prev, err := os.ReadFile(evPath); err == nil {
			var pe map[string]interface{}
			if json.Unmarshal(prev, &pe) == nil {
				if pc, ok := pe["coverage"].(map[string]interface{}); ok {
					pc[r.Phase+"_phase"] = cov
					if v, ok := pe["violations"].(float64); ok {
						pe["violations"] = int(v) + len(r.violations)
					}
					if w, ok := pe["wall_s"].(float64); ok {
						pe["wall_s"] = w + time.Since(r.start).Seconds()
					}
					ev = pe
				}
			}
		}
	}
	b, _ := json.MarshalIndent(ev, "", " ")
	if err := os.WriteFile(evPath, append(b, '\n'), 0o644); err != nil {
		fmt.Fprintf(os.Stderr, "cannot write evidence: %v\n", err)
		r.finishCode = 2
		return 2
	}

	// known-finding lines: one per listed open finding of this property (whether or not hit),
	// with the hit count observed on this run.
	for _, k := range r.kf.Open {
		if k.Property != r.Prop {
			continue
		}
		fmt.Printf("KNOWN-FINDING: property=%s %s [signature=%s observed=%d]\n", r.Prop, k.What,
			k.Signature, r.kfHits[k.Signature])
	}

	code := 0
	for _, s := range sigs {
		v := r.violations[s]
		path := filepath.Join(dir, "replays", sigFile(r.Prop, s))
		wb, _ := json.MarshalIndent(map[string]interface{}{
			"property": r.Prop, "clause": v.Clause, "signature": v.Signature,
			"detail": v.Detail, "seed": r.Seed, "tier": r.Tier, "witness": v.Witness,
		}, "", " ")
		os.WriteFile(path, append(wb, '\n'), 0o644)
		fmt.Printf("VIOLATION property=%s replay=%s\n", r.Prop, path)
		fmt.Printf("  clause=%s signature=%s count=%d\n  %s\n", v.Clause, v.Signature, r.vioCount[s], v.Detail)
		code = 1
	}

	fmt.Printf("%s %s seed=%d: evaluations=%d distinct_nontrivial=%d violations=%d known_hits=%d inconclusive=%d wall=%.1fs\n",
		r.Prop, r.Tier, r.Seed, r.evals, len(r.distinct), len(r.violations), len(r.kfHits),
		len(r.inconclusive), time.Since(r.start).Seconds())

	if code == 0 && (r.evals < 1 || len(r.distinct) < r.MinDistinct) {
		fmt.Printf("INCONCLUSIVE property=%s: monitors observed too little (evaluations=%d distinct=%d, need >=%d)\n",
			r.Prop, r.evals, len(r.distinct), r.MinDistinct)
		r.finishCode = 3
		return 3
	}
	r.finishCode = code
	return code
}

func EnvSeed() int64 {
	if s := os.Getenv("VERIF_SEED"); s != "" {
		if v, err := strconv.ParseInt(s, 10, 64); err == nil {
			return v
		}
	}
	return 1
}

// Rng returns a deterministic PRNG for (seed, stream).
func Rng(seed int64, stream int64) *rand.Rand {
	return rand.New(rand.NewSource(seed*1000003 + stream*7919 + 17))
}

// ParallelFor runs f(i) for i in [0,n) on `workers` goroutines.
// QuietFirst runs the first `quiet` indices two at a time before the rest runs `workers` wide.
// The race detector only reports accesses that no synchronisation orders; in a process busy with
// dozens of cases, unrelated locks (statistics, logger) order almost everything by accident, so
// every race-detector check gets a slice of its cases with little else going on.
func QuietFirst(n, quiet, workers int, f func(i int)) {
	if quiet > n {
		quiet = n
	}
	ParallelFor(quiet, 2, f)
	ParallelFor(n-quiet, workers, func(i int) { f(i + quiet) })
}

func ParallelFor(n, workers int, f func(i int)) {
	if workers < 1 {
		workers = 1
	}
	var wg sync.WaitGroup
	ch := make(chan int, workers*2)
	for w := 0; w < workers; w++ {
		wg.Add(1)
		go func() {
			defer wg.Done()
			for i := range ch {
				f(i)
			}
		}()
	}
	for i := 0; i < n; i++ {
		ch <- i
	}
	close(ch)
	wg.Wait()
}
