package common

import (
	"fmt"
	"os"
	"regexp"
	"runtime"
	"sort"
	"strconv"
	"strings"
	"sync/atomic"
	"time"
)

// Stall watch: a lock of the code under test that is never released leaves every later caller
// parked in sync.Mutex.Lock / sync.RWMutex.(R)Lock for good -- including the harness goroutine
// that made the call, so the check would never finish. The verdict is taken from goroutine state,
// not from a deadline of the harness: the runtime reports how long a goroutine has been parked
// ("[sync.Mutex.Lock, 3 minutes]"), and no critical section of this code base lasts minutes.

const repoModule = "github.com/tokenized/bitcoin_reader"

var stallHeaderRe = regexp.MustCompile(`^goroutine \d+ (?:gp=\S+ m=\S+ (?:mp=\S+ )?)?\[([^,\]]+)(?:, (\d+) minutes)?`)

// LockStalls returns, per function of the code under test, how many goroutines have been parked
// on a sync lock inside it for at least minMinutes.
func LockStalls(minMinutes int) map[string]int {
	buf := make([]byte, 32<<20)
	n := runtime.Stack(buf, true)
	out := map[string]int{}
	for _, g := range strings.Split(string(buf[:n]), "\n\n") {
		lines := strings.Split(g, "\n")
		m := stallHeaderRe.FindStringSubmatch(lines[0])
		if m == nil || !strings.HasPrefix(m[1], "sync.") || m[2] == "" {
			continue
		}
		if mins, _ := strconv.Atoi(m[2]); mins < minMinutes {
			continue
		}
		for _, l := range lines[1:] {
			if strings.HasPrefix(l, repoModule) {
				fn := l
				if i := strings.Index(fn, "("); i > 0 {
					// keep "(*T).Method", drop the argument list
					if j := strings.LastIndex(fn, "("); j > i || !strings.Contains(fn[:j+1], "(*") {
						fn = fn[:j]
					}
				}
				fn = strings.TrimPrefix(fn, repoModule)
				fn = strings.TrimLeft(fn, "/.")
				out[fn]++
				break
			}
		}
	}
	return out
}

func noProgressLimit() time.Duration {
	if v := os.Getenv("VERIF_NO_PROGRESS_MIN"); v != "" {
		if m, err := strconv.Atoi(v); err == nil && m > 0 {
			return time.Duration(m) * time.Minute
		}
	}
	return 15 * time.Minute
}

// parkedInRepo summarises, per function of the code under test and wait state, the goroutines
// that are currently parked there.
func parkedInRepo() map[string]int {
	buf := make([]byte, 32<<20)
	n := runtime.Stack(buf, true)
	out := map[string]int{}
	for _, g := range strings.Split(string(buf[:n]), "\n\n") {
		lines := strings.Split(g, "\n")
		m := stallHeaderRe.FindStringSubmatch(lines[0])
		if m == nil {
			continue
		}
		for _, l := range lines[1:] {
			if strings.HasPrefix(l, repoModule) {
				fn := strings.TrimLeft(strings.TrimPrefix(l, repoModule), "/.")
				if i := strings.LastIndex(fn, "("); i > 0 {
					fn = fn[:i]
				}
				out[m[1]+"@"+fn]++
				break
			}
		}
	}
	return out
}

// StartStallWatch reports a lock that is never released as a violation of the running check and
// ends the process (the parked harness goroutines cannot be unwound).
func (r *Run) StartStallWatch() {
	go func() {
		for {
			time.Sleep(15 * time.Second)
			r.mu.Lock()
			done := r.finished
			r.mu.Unlock()
			if done {
				return
			}
			st := LockStalls(2)
			if len(st) == 0 {
				// no progress at all for a long time: harness goroutines are parked for good on
				// something other than a lock (a channel of the code under test that nobody serves).
				// That is not a verdict about the property: record it as inconclusive, write what was
				// observed and end the process (exit 1 if violations were recorded before, else 3).
				last := atomic.LoadInt64(&r.lastActivity)
				if last != 0 && time.Since(time.Unix(0, last)) > noProgressLimit() {
					r.Inconclusive("no-progress-for-" + noProgressLimit().String() + "; goroutines parked in the code under test: " + fmt.Sprint(parkedInRepo()))
					r.mu.Lock()
					r.stalled = true
					r.mu.Unlock()
					code := r.Finish()
					if code == 0 {
						fmt.Printf("INCONCLUSIVE property=%s: the check stopped making progress\n", r.Prop)
						code = 3
					}
					os.Exit(code)
				}
				continue
			}
			var fns []string
			for f := range st {
				fns = append(fns, f)
			}
			sort.Strings(fns)
			r.Violate(Violation{Clause: "no-lock-of-the-code-under-test-is-held-forever",
				Signature: "lock-never-released/waiting-in=" + fns[0],
				Detail:    fmt.Sprintf("goroutines parked on a sync lock for >= 2 minutes inside: %v", st),
				Witness:   map[string]interface{}{"kind": "goroutine-state", "parked": st, "seed": r.Seed}})
			r.mu.Lock()
			r.stalled = true
			r.mu.Unlock()
			time.Sleep(20 * time.Second) // let cases that can still finish record what they saw
			os.Exit(r.Finish())
		}
	}()
}
