package common

import (
	"context"
	"sort"
	"strings"
	"sync"

	"github.com/tokenized/pkg/storage"
)

// JournalOp is one mutating storage call recorded by MemStore.
type JournalOp struct {
	Remove bool
	Key    string
	Data   []byte
}

// MemStore is an in-memory storage.Storage with a write journal, cloning and fault hooks.
type MemStore struct {
	mu      sync.Mutex
	data    map[string][]byte
	journal []JournalOp
	record  bool

	// OnAccess, when set, is called (outside the store lock) before every Read/Write/Remove.
	OnAccess func(kind, key string)
	// FailWrite, when set, makes Write return the error it returns (nil = proceed).
	FailWrite func(key string) error
}

func NewMemStore() *MemStore {
	return &MemStore{data: make(map[string][]byte)}
}

func (s *MemStore) Clone() *MemStore {
	s.mu.Lock()
	defer s.mu.Unlock()
	c := NewMemStore()
	for k, v := range s.data {
		c.data[k] = append([]byte(nil), v...)
	}
	return c
}

// Image returns a deep copy of the key → bytes image.
func (s *MemStore) Image() map[string][]byte {
	s.mu.Lock()
	defer s.mu.Unlock()
	c := make(map[string][]byte, len(s.data))
	for k, v := range s.data {
		c[k] = append([]byte(nil), v...)
	}
	return c
}

func FromImage(img map[string][]byte) *MemStore {
	c := NewMemStore()
	for k, v := range img {
		c.data[k] = append([]byte(nil), v...)
	}
	return c
}

func (s *MemStore) StartJournal() {
	s.mu.Lock()
	s.journal = nil
	s.record = true
	s.mu.Unlock()
}

func (s *MemStore) StopJournal() []JournalOp {
	s.mu.Lock()
	defer s.mu.Unlock()
	j := s.journal
	s.journal = nil
	s.record = false
	return j
}

func (s *MemStore) Keys() []string {
	s.mu.Lock()
	defer s.mu.Unlock()
	var ks []string
	for k := range s.data {
		ks = append(ks, k)
	}
	sort.Strings(ks)
	return ks
}

func (s *MemStore) Put(key string, b []byte) {
	s.mu.Lock()
	s.data[key] = append([]byte(nil), b...)
	s.mu.Unlock()
}

func (s *MemStore) Read(ctx context.Context, key string) ([]byte, error) {
	if s.OnAccess != nil {
		s.OnAccess("read", key)
	}
	s.mu.Lock()
	defer s.mu.Unlock()
	b, ok := s.data[key]
	if !ok {
		return nil, storage.ErrNotFound
	}
	return append([]byte(nil), b...), nil
}

func (s *MemStore) Write(ctx context.Context, key string, body []byte, o *storage.Options) error {
	if s.OnAccess != nil {
		s.OnAccess("write", key)
	}
	if s.FailWrite != nil {
		if err := s.FailWrite(key); err != nil {
			return err
		}
	}
	s.mu.Lock()
	defer s.mu.Unlock()
	c := append([]byte(nil), body...)
	s.data[key] = c
	if s.record {
		s.journal = append(s.journal, JournalOp{Key: key, Data: c})
	}
	return nil
}

func (s *MemStore) Remove(ctx context.Context, key string) error {
	if s.OnAccess != nil {
		s.OnAccess("remove", key)
	}
	s.mu.Lock()
	defer s.mu.Unlock()
	if _, ok := s.data[key]; !ok {
		return storage.ErrNotFound
	}
	delete(s.data, key)
	if s.record {
		s.journal = append(s.journal, JournalOp{Remove: true, Key: key})
	}
	return nil
}

func (s *MemStore) Search(ctx context.Context, q map[string]string) ([][]byte, error) {
	s.mu.Lock()
	defer s.mu.Unlock()
	var out [][]byte
	p := q["path"]
	for k, v := range s.data {
		if strings.HasPrefix(k, p) {
			out = append(out, append([]byte(nil), v...))
		}
	}
	return out, nil
}

func (s *MemStore) Clear(ctx context.Context, q map[string]string) error {
	s.mu.Lock()
	defer s.mu.Unlock()
	p := q["path"]
	for k := range s.data {
		if strings.HasPrefix(k, p) {
			delete(s.data, k)
		}
	}
	return nil
}

func (s *MemStore) List(ctx context.Context, path string) ([]string, error) {
	s.mu.Lock()
	defer s.mu.Unlock()
	var out []string
	for k := range s.data {
		if strings.HasPrefix(k, path) {
			out = append(out, k)
		}
	}
	sort.Strings(out)
	return out, nil
}

func (s *MemStore) Copy(ctx context.Context, from, to string) error {
	s.mu.Lock()
	defer s.mu.Unlock()
	b, ok := s.data[from]
	if !ok {
		return storage.ErrNotFound
	}
	s.data[to] = append([]byte(nil), b...)
	return nil
}

// ApplyJournal applies the first n ops of a journal to an image copy.
func ApplyJournal(img map[string][]byte, j []JournalOp, n int) map[string][]byte {
	out := make(map[string][]byte, len(img))
	for k, v := range img {
		out[k] = v
	}
	for i := 0; i < n && i < len(j); i++ {
		if j[i].Remove {
			delete(out, j[i].Key)
		} else {
			out[j[i].Key] = j[i].Data
		}
	}
	return out
}
