package netx

import (
	"context"
	"encoding/binary"
	"fmt"
	"runtime"
	"strings"
	"sync"
	"sync/atomic"
	"time"

	"verifharness/common"

	bitcoin_reader "github.com/tokenized/bitcoin_reader"
	"github.com/tokenized/bitcoin_reader/headers"
	"github.com/tokenized/pkg/bitcoin"
	"github.com/tokenized/pkg/merkle_proof"
	"github.com/tokenized/pkg/wire"
)

// SpyHeaders wraps a real header repository and counts what reaches it.
type SpyHeaders struct {
	*headers.Repository
	ProcessCalls int64
	VerifyCalls  int64
	mu           sync.Mutex
	Processed    []bitcoin.Hash32
}

func (s *SpyHeaders) ProcessHeader(ctx context.Context, h *wire.BlockHeader) error {
	atomic.AddInt64(&s.ProcessCalls, 1)
	s.mu.Lock()
	s.Processed = append(s.Processed, *h.BlockHash())
	s.mu.Unlock()
	return s.Repository.ProcessHeader(ctx, h)
}

func (s *SpyHeaders) VerifyHeader(ctx context.Context, h *wire.BlockHeader) error {
	atomic.AddInt64(&s.VerifyCalls, 1)
	return s.Repository.VerifyHeader(ctx, h)
}

// SpyPeers wraps a real peer book and records every call.
type SpyPeers struct {
	Inner      *bitcoin_reader.StoragePeerRepository
	Adds       int64
	Scores     int64
	Times      int64
	mu         sync.Mutex
	AddedAddrs []string
}

func NewSpyPeers() *SpyPeers {
	return &SpyPeers{Inner: bitcoin_reader.NewPeerRepository(common.NewMemStore(), "")}
}

func (s *SpyPeers) Add(ctx context.Context, address string) (bool, error) {
	atomic.AddInt64(&s.Adds, 1)
	s.mu.Lock()
	s.AddedAddrs = append(s.AddedAddrs, address)
	s.mu.Unlock()
	return s.Inner.Add(ctx, address)
}
func (s *SpyPeers) Get(ctx context.Context, min, max int32) (bitcoin_reader.PeerList, error) {
	return s.Inner.Get(ctx, min, max)
}
func (s *SpyPeers) UpdateTime(ctx context.Context, address string) bool {
	atomic.AddInt64(&s.Times, 1)
	return s.Inner.UpdateTime(ctx, address)
}
func (s *SpyPeers) UpdateScore(ctx context.Context, address string, delta int32) bool {
	atomic.AddInt64(&s.Scores, 1)
	return s.Inner.UpdateScore(ctx, address, delta)
}

// RecProcessor records every TxProcessor / TxSaver call.
type RecProcessor struct {
	mu       sync.Mutex
	Events   []ProcEvent
	Relevant func(txid bitcoin.Hash32) bool
	FailAt   int    // 1-based call number at which FailKind fails (0 = never)
	FailKind string // "process" "coinbase" "confirm"
	calls    map[string]int
	OnCall   func(kind string)
}

type ProcEvent struct {
	Kind   string // process coinbase confirm save cancel conflict depth
	TxID   bitcoin.Hash32
	Block  bitcoin.Hash32
	Height int
	Proof  *merkle_proof.MerkleProof
	Result bool
}

func NewRecProcessor() *RecProcessor { return &RecProcessor{calls: map[string]int{}} }

func (p *RecProcessor) rec(e ProcEvent) error {
	if p.OnCall != nil {
		p.OnCall(e.Kind)
	}
	p.mu.Lock()
	defer p.mu.Unlock()
	p.calls[e.Kind]++
	if p.FailAt > 0 && p.FailKind == e.Kind && p.calls[e.Kind] == p.FailAt {
		p.Events = append(p.Events, ProcEvent{Kind: e.Kind + "-failed", TxID: e.TxID, Block: e.Block})
		return fmt.Errorf("injected %s failure", e.Kind)
	}
	p.Events = append(p.Events, e)
	return nil
}

func (p *RecProcessor) ProcessTx(ctx context.Context, tx *wire.MsgTx) (bool, error) {
	txid := *tx.TxHash()
	rel := false
	if p.Relevant != nil {
		rel = p.Relevant(txid)
	}
	if err := p.rec(ProcEvent{Kind: "process", TxID: txid, Result: rel}); err != nil {
		return false, err
	}
	return rel, nil
}
func (p *RecProcessor) CancelTx(ctx context.Context, txid bitcoin.Hash32) error {
	return p.rec(ProcEvent{Kind: "cancel", TxID: txid})
}
func (p *RecProcessor) AddTxConflict(ctx context.Context, txid, c bitcoin.Hash32) error {
	return p.rec(ProcEvent{Kind: "conflict", TxID: txid})
}
func (p *RecProcessor) ConfirmTx(ctx context.Context, txid bitcoin.Hash32, height int, proof *merkle_proof.MerkleProof) error {
	return p.rec(ProcEvent{Kind: "confirm", TxID: txid, Height: height, Proof: proof})
}
func (p *RecProcessor) UpdateTxChainDepth(ctx context.Context, txid bitcoin.Hash32, d uint32) error {
	return p.rec(ProcEvent{Kind: "depth", TxID: txid})
}
func (p *RecProcessor) ProcessCoinbaseTx(ctx context.Context, block bitcoin.Hash32, tx *wire.MsgTx) error {
	var txid bitcoin.Hash32
	if tx != nil {
		txid = *tx.TxHash()
	}
	return p.rec(ProcEvent{Kind: "coinbase", TxID: txid, Block: block})
}
func (p *RecProcessor) SaveTx(ctx context.Context, tx *wire.MsgTx) error {
	return p.rec(ProcEvent{Kind: "save", TxID: *tx.TxHash()})
}
func (p *RecProcessor) Snapshot() []ProcEvent {
	p.mu.Lock()
	defer p.mu.Unlock()
	return append([]ProcEvent(nil), p.Events...)
}
func (p *RecProcessor) CountKind(kind string) int {
	p.mu.Lock()
	defer p.mu.Unlock()
	n := 0
	for _, e := range p.Events {
		if e.Kind == kind {
			n++
		}
	}
	return n
}

// Session is one real BitcoinNode connected to one scripted peer over loopback.
type Session struct {
	Ctx       context.Context
	Node      *bitcoin_reader.BitcoinNode
	Peer      *Peer
	Headers   *SpyHeaders
	Peers     *SpyPeers
	TxManager *bitcoin_reader.TxManager
	Proc      *RecProcessor
	Interrupt chan interface{}
	Done      chan struct{}
	RunErr    error
	txRunDone chan struct{}
	stopOnce  sync.Once
}

type SessionOpts struct {
	VerifyOnly bool
	WithTx     bool
	Repo       *headers.Repository // nil = fresh mainnet repository at genesis
	TxTimeout  time.Duration
	Config     *bitcoin_reader.Config
	// HeaderHandler installs an alternate headers handler (as NodeManager does for every node when
	// its owner set one): a second, throw-away repository's HandleHeadersMessage
	HeaderHandler bool
}

var BSVSplitHeader = headers.MainNetRequiredHeader

func StartSession(ctx context.Context, o SessionOpts) (*Session, error) {
	p, err := Listen()
	if err != nil {
		return nil, err
	}
	repo := o.Repo
	if repo == nil {
		repo = headers.NewRepository(headers.DefaultConfig(), common.NewMemStore())
		repo.InitializeWithGenesis()
	}
	s := &Session{Ctx: ctx, Peer: p, Headers: &SpyHeaders{Repository: repo}, Peers: NewSpyPeers(),
		Interrupt: make(chan interface{}), Done: make(chan struct{})}
	cfg := o.Config
	if cfg == nil {
		cfg = bitcoin_reader.DefaultConfig()
	}
	s.Node = bitcoin_reader.NewBitcoinNode(p.Addr(), "/verif:1/", cfg, s.Headers, s.Peers)
	if o.VerifyOnly {
		s.Node.SetVerifyOnly()
	}
	if o.HeaderHandler {
		side := headers.NewRepository(headers.DefaultConfig(), common.NewMemStore())
		side.InitializeWithGenesis()
		s.Node.SetHeaderHandler(side.HandleHeadersMessage)
	}
	if o.WithTx {
		to := o.TxTimeout
		if to == 0 {
			to = time.Hour
		}
		s.TxManager = bitcoin_reader.NewTxManager(to)
		s.Proc = NewRecProcessor()
		s.TxManager.SetTxProcessor(s.Proc)
		s.TxManager.SetTxSaver(s.Proc)
		s.Node.SetTxManager(s.TxManager)
		s.txRunDone = make(chan struct{})
		go func() {
			s.TxManager.Run(ctx)
			close(s.txRunDone)
		}()
	}
	go func() {
		s.RunErr = s.Node.Run(ctx, s.Interrupt)
		close(s.Done)
	}()
	if err := p.Accept(5 * time.Second); err != nil {
		return nil, fmt.Errorf("node did not dial in: %v", err)
	}
	return s, nil
}

// Handshake sends version+verack and answers the node's own ping. It returns once the node's
// verification getheaders has arrived (index of it in the peer log).
func (s *Session) Handshake(timeout time.Duration) (int, error) {
	if err := s.Peer.Send("version", VersionPayload(700000)); err != nil {
		return -1, err
	}
	if err := s.Peer.Send("verack", nil); err != nil {
		return -1, err
	}
	i, _ := s.Peer.WaitCmd(0, "getheaders", timeout)
	if i < 0 {
		return -1, fmt.Errorf("no verification getheaders within %v (closed=%v)", timeout, s.Peer.IsClosed())
	}
	return i, nil
}

// Verify answers the verification request with the BSV split header and waits until the node
// has finished accepting (its addr message is the last thing accept() sends).
func (s *Session) Verify(timeout time.Duration) error {
	if _, err := s.Handshake(timeout); err != nil {
		return err
	}
	if err := s.Peer.Send("headers", HeadersPayload([]*wire.BlockHeader{BSVSplitHeader})); err != nil {
		return err
	}
	i, _ := s.Peer.WaitCmd(0, "addr", timeout)
	if i < 0 {
		return fmt.Errorf("node did not finish accepting within %v (closed=%v ready=%v)", timeout, s.Peer.IsClosed(), s.Node.IsReady())
	}
	// answer the node's own ping so that a later pong handler is satisfied
	for _, m := range s.Peer.Log() {
		if m.Cmd == "ping" {
			s.Peer.Send("pong", m.Payload)
		}
	}
	return nil
}

// PingPong sends a ping and waits for the pong carrying the nonce.
func (s *Session) PingPong(nonce uint64, timeout time.Duration) (bool, bool) {
	from := len(s.Peer.Log())
	if err := s.Peer.Send("ping", PingPayload(nonce)); err != nil {
		return false, true
	}
	i, closed := s.Peer.WaitFor(from, timeout, func(m Msg) bool {
		return m.Cmd == "pong" && len(m.Payload) == 8 && binary.LittleEndian.Uint64(m.Payload) == nonce
	})
	return i >= 0, closed
}

// Stop interrupts the node, closes the peer and waits for Run to return.
func (s *Session) Stop(timeout time.Duration) bool {
	s.stopOnce.Do(func() { close(s.Interrupt) })
	s.Peer.Close()
	ok := true
	select {
	case <-s.Done:
	case <-time.After(timeout):
		ok = false
	}
	if s.TxManager != nil {
		s.TxManager.Stop(s.Ctx)
		select {
		case <-s.txRunDone:
		case <-time.After(timeout):
			ok = false
		}
	}
	return ok
}

// WaitRunReturn waits for Run to return without interrupting it.
func (s *Session) WaitRunReturn(timeout time.Duration) bool {
	select {
	case <-s.Done:
		return true
	case <-time.After(timeout):
		return false
	}
}

// ReaderState classifies what the node's read side is doing, from the goroutine dump: the
// goroutines whose stack carries this node as receiver (readIncoming, handleMessage and the
// per-message handler goroutine). "waiting-for-bytes": parked in a network read (everything that
// was sent has been consumed); "blocked-on-lock": parked on a sync lock; "busy": anything else
// (running, runnable, waiting on its own handler that is running, ...); "gone": no such goroutine.
func (s *Session) ReaderState() string {
	ptr := fmt.Sprintf("(%p", s.Node)
	buf := make([]byte, 64<<20)
	n := runtime.Stack(buf, true)
	var reader, handler, writer string
	for _, g := range strings.Split(string(buf[:n]), "\n\n") {
		if !strings.Contains(g, ptr) {
			continue
		}
		lines := strings.SplitN(g, "\n", 2)
		state := ""
		if i := strings.Index(lines[0], "["); i >= 0 {
			state = strings.TrimSuffix(lines[0][i+1:], "]:")
			if j := strings.Index(state, ","); j >= 0 {
				state = state[:j]
			}
		}
		switch {
		case strings.Contains(g, ".sendOutgoing"+ptr):
			writer = state
		case strings.Contains(g, ".readIncoming"+ptr):
			reader = state
		case strings.Contains(g, ".handleMessage.func1") || (strings.Contains(g, "bitcoin_reader.(*BitcoinNode).handle") && !strings.Contains(g, ".readIncoming"+ptr) && !strings.Contains(g, ".sendOutgoing"+ptr)):
			if handler == "" || state != "IO wait" {
				handler = state
			}
		}
	}
	class := func(st string) string {
		switch {
		case st == "IO wait":
			return "waiting-for-bytes"
		case strings.HasPrefix(st, "sync.") || st == "semacquire":
			return "blocked-on-lock"
		}
		return "busy"
	}
	if writer != "" && writer != "chan receive" {
		return "busy" // an answer may still be on its way out
	}
	switch {
	case reader == "":
		return "gone"
	case reader == "select" && handler != "":
		return class(handler)
	case reader == "select":
		return "busy"
	}
	return class(reader)
}

// NodeGoroutines returns, for the witness of a no-answer verdict, state and innermost frames of
// every goroutine whose stack carries this node as receiver.
func (s *Session) NodeGoroutines() []string {
	ptr := fmt.Sprintf("(%p", s.Node)
	buf := make([]byte, 64<<20)
	n := runtime.Stack(buf, true)
	var out []string
	for _, g := range strings.Split(string(buf[:n]), "\n\n") {
		if !strings.Contains(g, ptr) {
			continue
		}
		lines := strings.Split(g, "\n")
		var fr []string
		for _, l := range lines[1:] {
			if !strings.HasPrefix(l, "\t") && len(fr) < 9 {
				if i := strings.Index(l, "("); i > 0 {
					l = l[:i]
				}
				fr = append(fr, l[strings.LastIndex(l, "/")+1:])
			}
		}
		out = append(out, lines[0]+" "+strings.Join(fr, " < "))
	}
	return out
}
