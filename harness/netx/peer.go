// Package netx is the scripted P2P peer: a loopback listener the real BitcoinNode dials through
// its exported Run, with raw classic and extended framing in both directions.
package netx

import (
	"bytes"
	"crypto/sha256"
	"encoding/binary"
	"fmt"
	"io"
	"net"
	"sync"
	"sync/atomic"
	"time"

	"github.com/tokenized/pkg/bitcoin"
	"github.com/tokenized/pkg/wire"
)

const Magic = uint32(0xe8f3e1e3) // bitcoin.MainNet

type Msg struct {
	Cmd     string
	Payload []byte
	At      time.Time
}

// Peer is one scripted peer endpoint.
type Peer struct {
	ln   net.Listener
	conn net.Conn

	mu     sync.Mutex
	log    []Msg
	closed bool
	rdErr  error
	cond   *sync.Cond
	wmu    sync.Mutex
	Sent   [][]byte // raw bytes written, for replay files
	Record bool
	// WriteTimeout bounds one write (default 20 s); WriteTimedOut is set once a write hit it: the
	// stream then ends in the middle of a frame and nothing that follows can be judged
	WriteTimeout  time.Duration
	WriteTimedOut int32
	paused        int32
}

func Listen() (*Peer, error) {
	ln, err := net.Listen("tcp", "127.0.0.1:0")
	if err != nil {
		return nil, err
	}
	p := &Peer{ln: ln}
	p.cond = sync.NewCond(&p.mu)
	return p, nil
}

func (p *Peer) Addr() string { return p.ln.Addr().String() }

// Accept waits for the node to dial in and starts the frame reader.
func (p *Peer) Accept(timeout time.Duration) error {
	p.ln.(*net.TCPListener).SetDeadline(time.Now().Add(timeout))
	c, err := p.ln.Accept()
	if err != nil {
		return err
	}
	p.conn = c
	go p.reader()
	return nil
}

// PauseReading makes the peer stop taking bytes off the connection (a peer that only sends).
func (p *Peer) PauseReading() { atomic.StoreInt32(&p.paused, 1) }

func (p *Peer) reader() {
	for {
		for atomic.LoadInt32(&p.paused) != 0 {
			time.Sleep(20 * time.Millisecond)
			p.mu.Lock()
			closed := p.closed
			p.mu.Unlock()
			if closed {
				return
			}
		}
		var hdr [24]byte
		if _, err := io.ReadFull(p.conn, hdr[:]); err != nil {
			p.setClosed(err)
			return
		}
		cmd := string(bytes.TrimRight(hdr[4:16], "\x00"))
		n := binary.LittleEndian.Uint32(hdr[16:20])
		payload := make([]byte, n)
		if _, err := io.ReadFull(p.conn, payload); err != nil {
			p.setClosed(err)
			return
		}
		p.mu.Lock()
		p.log = append(p.log, Msg{Cmd: cmd, Payload: payload, At: time.Now()})
		p.cond.Broadcast()
		p.mu.Unlock()
	}
}

func (p *Peer) setClosed(err error) {
	p.mu.Lock()
	p.closed = true
	p.rdErr = err
	p.cond.Broadcast()
	p.mu.Unlock()
}

// IsClosed reports whether the node closed (or reset) the connection.
func (p *Peer) IsClosed() bool {
	p.mu.Lock()
	defer p.mu.Unlock()
	return p.closed
}

// Log returns a copy of everything received so far.
func (p *Peer) Log() []Msg {
	p.mu.Lock()
	defer p.mu.Unlock()
	return append([]Msg(nil), p.log...)
}

// WaitFor waits until pred is true for some received message at index >= from, or the connection
// closes, or the timeout expires. It returns the index (or -1) and whether the peer is closed.
func (p *Peer) WaitFor(from int, timeout time.Duration, pred func(Msg) bool) (int, bool) {
	deadline := time.Now().Add(timeout)
	timer := time.AfterFunc(timeout, func() {
		p.mu.Lock()
		p.cond.Broadcast()
		p.mu.Unlock()
	})
	defer timer.Stop()
	p.mu.Lock()
	defer p.mu.Unlock()
	i := from
	for {
		for ; i < len(p.log); i++ {
			if pred(p.log[i]) {
				return i, p.closed
			}
		}
		if p.closed || !time.Now().Before(deadline) {
			return -1, p.closed
		}
		p.cond.Wait()
	}
}

// WaitClosed waits for the node to close the connection.
func (p *Peer) WaitClosed(timeout time.Duration) bool {
	_, closed := p.WaitFor(1<<30, timeout, func(Msg) bool { return false })
	return closed
}

func (p *Peer) WaitCmd(from int, cmd string, timeout time.Duration) (int, bool) {
	return p.WaitFor(from, timeout, func(m Msg) bool { return m.Cmd == cmd })
}

func (p *Peer) Close() {
	if p.conn != nil {
		p.conn.Close()
	}
	p.ln.Close()
}

// CloseConn closes only the connection (the peer hangs up).
func (p *Peer) CloseConn() {
	if p.conn != nil {
		p.conn.Close()
	}
}

func checksum(payload []byte) [4]byte {
	a := sha256.Sum256(payload)
	b := sha256.Sum256(a[:])
	var c [4]byte
	copy(c[:], b[:4])
	return c
}

// Frame builds a classic frame.
func Frame(cmd string, payload []byte) []byte {
	var b bytes.Buffer
	binary.Write(&b, binary.LittleEndian, Magic)
	var c [12]byte
	copy(c[:], cmd)
	b.Write(c[:])
	binary.Write(&b, binary.LittleEndian, uint32(len(payload)))
	cs := checksum(payload)
	b.Write(cs[:])
	b.Write(payload)
	return b.Bytes()
}

// FrameHeader builds only a classic header with arbitrary declared length / checksum.
func FrameHeader(magic uint32, cmd string, length uint32, cs [4]byte) []byte {
	var b bytes.Buffer
	binary.Write(&b, binary.LittleEndian, magic)
	var c [12]byte
	copy(c[:], cmd)
	b.Write(c[:])
	binary.Write(&b, binary.LittleEndian, length)
	b.Write(cs[:])
	return b.Bytes()
}

// ExtFrame builds an extended-format frame (extmsg header + ext command + 64-bit length).
func ExtFrame(cmd string, payload []byte) []byte {
	return append(ExtHeader(cmd, uint64(len(payload))), payload...)
}

// ExtHeader builds the 44 bytes that precede an extended payload, with any declared length.
func ExtHeader(cmd string, declared uint64) []byte {
	var b bytes.Buffer
	b.Write(FrameHeader(Magic, "extmsg", 0xffffffff, [4]byte{}))
	var c [12]byte
	copy(c[:], cmd)
	b.Write(c[:])
	binary.Write(&b, binary.LittleEndian, declared)
	return b.Bytes()
}

func (p *Peer) SendRaw(b []byte) error {
	p.wmu.Lock()
	defer p.wmu.Unlock()
	if p.Record {
		p.Sent = append(p.Sent, append([]byte(nil), b...))
	}
	to := p.WriteTimeout
	if to == 0 {
		to = 20 * time.Second
	}
	p.conn.SetWriteDeadline(time.Now().Add(to))
	_, err := p.conn.Write(b)
	if ne, ok := err.(net.Error); ok && ne.Timeout() {
		atomic.StoreInt32(&p.WriteTimedOut, 1)
	}
	return err
}

func (p *Peer) Send(cmd string, payload []byte) error { return p.SendRaw(Frame(cmd, payload)) }

func (p *Peer) SendMsg(m wire.Message) error {
	var b bytes.Buffer
	if err := m.BtcEncode(&b, wire.ProtocolVersion); err != nil {
		return err
	}
	return p.Send(m.Command(), b.Bytes())
}

func Encode(m wire.Message) []byte {
	var b bytes.Buffer
	m.BtcEncode(&b, wire.ProtocolVersion)
	return b.Bytes()
}

// VersionPayload is a plausible version message from a full node.
func VersionPayload(height int32) []byte {
	local := wire.NewNetAddressIPPort(net.IPv4(127, 0, 0, 1), 8333, 1)
	remote := wire.NewNetAddressIPPort(net.IPv4(127, 0, 0, 1), 9333, 0)
	v := wire.NewMsgVersion(remote, local, 0x1122334455667788, height)
	v.UserAgent = "/ScriptedPeer:1.0/"
	v.Services = 1
	return Encode(v)
}

// HeadersPayload encodes a headers message (each header followed by a zero tx count).
func HeadersPayload(hs []*wire.BlockHeader) []byte {
	var b bytes.Buffer
	wire.WriteVarInt(&b, wire.ProtocolVersion, uint64(len(hs)))
	for _, h := range hs {
		h.Serialize(&b)
		b.WriteByte(0)
	}
	return b.Bytes()
}

func PingPayload(nonce uint64) []byte {
	var b [8]byte
	binary.LittleEndian.PutUint64(b[:], nonce)
	return b[:]
}

func InvPayload(typ uint32, hashes []bitcoin.Hash32) []byte {
	var b bytes.Buffer
	wire.WriteVarInt(&b, wire.ProtocolVersion, uint64(len(hashes)))
	for _, h := range hashes {
		binary.Write(&b, binary.LittleEndian, typ)
		b.Write(h[:])
	}
	return b.Bytes()
}

// ParseInv decodes an inv/getdata payload.
func ParseInv(payload []byte) (types []uint32, hashes []bitcoin.Hash32, err error) {
	r := bytes.NewReader(payload)
	n, err := wire.ReadVarInt(r, wire.ProtocolVersion)
	if err != nil {
		return nil, nil, err
	}
	for i := uint64(0); i < n; i++ {
		var t uint32
		if err := binary.Read(r, binary.LittleEndian, &t); err != nil {
			return nil, nil, err
		}
		var h bitcoin.Hash32
		if _, err := io.ReadFull(r, h[:]); err != nil {
			return nil, nil, err
		}
		types = append(types, t)
		hashes = append(hashes, h)
	}
	return
}

// ParseGetHeaders decodes the locator of a getheaders payload.
func ParseGetHeaders(payload []byte) ([]bitcoin.Hash32, error) {
	r := bytes.NewReader(payload)
	var ver uint32
	if err := binary.Read(r, binary.LittleEndian, &ver); err != nil {
		return nil, err
	}
	n, err := wire.ReadVarInt(r, wire.ProtocolVersion)
	if err != nil {
		return nil, err
	}
	var out []bitcoin.Hash32
	for i := uint64(0); i < n; i++ {
		var h bitcoin.Hash32
		if _, err := io.ReadFull(r, h[:]); err != nil {
			return nil, err
		}
		out = append(out, h)
	}
	return out, nil
}

func AddrPayload(n int) []byte {
	m := wire.NewMsgAddr()
	for i := 0; i < n; i++ {
		m.AddAddress(wire.NewNetAddressIPPort(net.IPv4(10, byte(i>>16), byte(i>>8), byte(i)), 8333, 1))
	}
	return Encode(m)
}

func (m Msg) String() string { return fmt.Sprintf("%s(%d)", m.Cmd, len(m.Payload)) }
