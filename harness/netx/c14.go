package netx

import (
	"bytes"
	"context"
	"encoding/binary"
	"fmt"
	"math/rand"
	"os"
	"strings"
	"sync"
	"sync/atomic"
	"time"

	"verifharness/common"

	"github.com/tokenized/bitcoin_reader/headers"
	"github.com/tokenized/pkg/bitcoin"
	"github.com/tokenized/pkg/wire"
)

// MkTx builds a small distinct transaction.
func MkTx(rng *rand.Rand, scriptLen int) *wire.MsgTx {
	tx := wire.NewMsgTx(1)
	var prev bitcoin.Hash32
	rng.Read(prev[:])
	us := make([]byte, 1+rng.Intn(20))
	rng.Read(us)
	tx.AddTxIn(wire.NewTxIn(wire.NewOutPoint(&prev, rng.Uint32()%4), us))
	ls := make([]byte, scriptLen)
	rng.Read(ls)
	tx.AddTxOut(wire.NewTxOut(uint64(rng.Intn(100000)), ls))
	return tx
}

func TxBytes(tx *wire.MsgTx) []byte {
	var b bytes.Buffer
	tx.Serialize(&b)
	return b.Bytes()
}

// BlockPayload serialises header + tx count + txs.
func BlockPayload(hd *wire.BlockHeader, declared uint64, txs []*wire.MsgTx) []byte {
	var b bytes.Buffer
	hd.Serialize(&b)
	wire.WriteVarInt(&b, wire.ProtocolVersion, declared)
	for _, tx := range txs {
		tx.Serialize(&b)
	}
	return b.Bytes()
}

// chainGen produces synthetic headers that extend one another from genesis.
type chainGen struct {
	prev bitcoin.Hash32
	ts   uint32
	rng  *rand.Rand
}

func (c *chainGen) next(n int) []*wire.BlockHeader {
	out := make([]*wire.BlockHeader, n)
	for i := range out {
		c.ts += 600
		h := &wire.BlockHeader{Version: 1, PrevBlock: c.prev, Timestamp: c.ts, Bits: 0x1d00ffff, Nonce: c.rng.Uint32()}
		c.rng.Read(h.MerkleRoot[:])
		out[i] = h
		c.prev = *h.BlockHash()
	}
	return out
}

var unhandledCmds = []string{"getdata", "getblocks", "getheaders", "mempool", "notfound", "feefilter", "sendheaders",
	"sendcmpct", "alert", "filterload", "filteradd", "filterclear", "merkleblock", "cmpctblock", "getblocktxn",
	"blocktxn", "createstrm", "streamack", "dsdetected", "authch", "authresp"}

type c14Stats struct {
	sessions, msgs, pongs, bytes int64
	byKind                       sync.Map
}

func (s *c14Stats) kind(k string) {
	v, _ := s.byKind.LoadOrStore(k, new(int64))
	atomic.AddInt64(v.(*int64), 1)
}

func desyncClass(err error) string {
	if err == nil {
		return ""
	}
	m := err.Error()
	for _, k := range []string{"Wrong Network", "Invalid command characters", "bad checksum", "decode", "unexpected EOF", "EOF", "Non-zero header tx count", "read header", "Message Too Large"} {
		if strings.Contains(m, k) {
			return k
		}
	}
	for _, k := range []string{"too slow", "Timeout"} {
		if strings.Contains(m, k) {
			return "timer:" + k
		}
	}
	return "other"
}

// runC14Sequence drives one verified session with a generated sequence of well-formed messages.
func runC14Sequence(ctx context.Context, run *common.Run, st *c14Stats, idx int, maxPayload int) {
	if run.Saturated() {
		return
	}
	rng := common.Rng(run.Seed, int64(140000+idx))
	withTx := rng.Intn(4) != 0
	repo := headers.NewRepository(headers.DefaultConfig(), common.NewMemStore())
	repo.InitializeWithGenesis()
	repo.DisableDifficulty()
	s, err := StartSession(ctx, SessionOpts{WithTx: withTx, Repo: repo})
	if err != nil {
		run.Inconclusive("session-start: " + err.Error())
		return
	}
	defer s.Stop(20 * time.Second)
	s.Peer.Record = true
	s.Peer.WriteTimeout = 2 * time.Minute // multi-megabyte frames to a node that is slow under load
	if err := s.Verify(15 * time.Second); err != nil {
		run.Inconclusive("verify: " + err.Error())
		return
	}
	atomic.AddInt64(&st.sessions, 1)
	cg := &chainGen{prev: *MainGenesisHash(), ts: 1231006505, rng: rng}
	var desc []string
	protoconfSent := false
	nmsg := 1 + rng.Intn(40)
	if v := os.Getenv("VERIF_C14_MAXMSG"); v != "" { // debugging aid: truncate the sequence
		var k int
		if fmt.Sscan(v, &k); k < nmsg {
			nmsg = k
		}
	}
	var pendingBlock *bitcoin.Hash32
	slowExt := idx%40 == 7
	send := func(kind string, frame []byte) bool {
		desc = append(desc, fmt.Sprintf("%s[%d]", kind, len(frame)))
		st.kind(kind)
		atomic.AddInt64(&st.msgs, 1)
		atomic.AddInt64(&st.bytes, int64(len(frame)))
		if slowExt && len(frame) > 44 && string(bytes.TrimRight(frame[4:16], "\x00")) == "extmsg" {
			// a slow peer: the 20 bytes that extend the header arrive after the dispatcher's
			// 3-second slow-handler warning has fired
			slowExt = false
			desc[len(desc)-1] += "+slow-extension"
			run.Count("extended-header-delivered-slowly", 1)
			if s.Peer.SendRaw(frame[:24]) != nil {
				return false
			}
			time.Sleep(3300 * time.Millisecond)
			return s.Peer.SendRaw(frame[24:]) == nil
		}
		// occasionally split the write to exercise partial reads
		if len(frame) > 30 && rng.Intn(5) == 0 {
			cut := 1 + rng.Intn(len(frame)-1)
			if s.Peer.SendRaw(frame[:cut]) != nil {
				return false
			}
			return s.Peer.SendRaw(frame[cut:]) == nil
		}
		return s.Peer.SendRaw(frame) == nil
	}
	payloadOf := func(max int) []byte {
		var n int
		switch rng.Intn(6) {
		case 0:
			n = 0
		case 1:
			n = rng.Intn(64)
		case 2:
			n = 1000 + rng.Intn(50)
		case 3:
			n = 1024 * (1 + rng.Intn(8))
		default:
			n = rng.Intn(max + 1)
		}
		b := make([]byte, n)
		rng.Read(b)
		return b
	}
	// every tenth sequence starts with one transaction delivered three times and then announced
	var sentTxs []*wire.MsgTx
	repeatTx := idx%10 == 3
	if repeatTx {
		tx := MkTx(rng, 25)
		sentTxs = append(sentTxs, tx)
		for _, kind := range []string{"tx", "tx-again", "tx-ext-again", "inv-of-delivered-tx", "tx-again"} {
			var f []byte
			switch kind {
			case "tx-ext-again":
				f = ExtFrame("tx", TxBytes(tx))
			case "inv-of-delivered-tx":
				f = Frame("inv", InvPayload(1, []bitcoin.Hash32{*tx.TxHash()}))
			default:
				f = Frame("tx", TxBytes(tx))
			}
			if !send(kind, f) {
				break
			}
		}
	}
	for i := 0; i < nmsg; i++ {
		ok := true
		switch k := rng.Intn(20); {
		case k < 3: // unhandled known command
			cmd := unhandledCmds[rng.Intn(len(unhandledCmds))]
			ok = send("unhandled:"+cmd, Frame(cmd, payloadOf(maxPayload)))
		case k < 5: // made-up command
			l := 1 + rng.Intn(12)
			cb := make([]byte, l)
			for j := range cb {
				cb[j] = byte('a' + rng.Intn(26))
			}
			// never a real command by accident ("tx" with a random payload is not conformant traffic):
			// no command of the protocol starts with "zq" or is "z"
			cb[0] = 'z'
			if l > 1 {
				cb[1] = 'q'
			}
			ok = send("made-up", Frame(string(cb), payloadOf(maxPayload)))
		case k < 6: // extended unknown
			ok = send("ext-unknown", ExtFrame("zzunknown", payloadOf(maxPayload)))
		case k < 9: // headers
			n := []int{0, 1, 2, 10, 500, 2000}[rng.Intn(6)]
			ok = send(fmt.Sprintf("headers-%d", n), Frame("headers", HeadersPayload(cg.next(n))))
		case k < 10: // addr
			n := []int{0, 1, 1000}[rng.Intn(3)]
			ok = send(fmt.Sprintf("addr-%d", n), Frame("addr", AddrPayload(n)))
		case k < 12: // inv
			n := []int{0, 1, 50, 50000}[rng.Intn(4)]
			hs := make([]bitcoin.Hash32, n)
			for j := range hs {
				rng.Read(hs[j][:])
			}
			typ := uint32(1)
			if rng.Intn(4) == 0 {
				typ = 2
			}
			ok = send(fmt.Sprintf("inv-%d-type%d", n, typ), Frame("inv", InvPayload(typ, hs)))
		case k < 14: // tx classic / extended, unsolicited
			if len(sentTxs) > 0 && (repeatTx || rng.Intn(3) == 0) {
				// the same transaction again (relayed by several of the peer's neighbours), or its
				// txid announced after it was delivered
				tx := sentTxs[rng.Intn(len(sentTxs))]
				switch rng.Intn(3) {
				case 0:
					ok = send("tx-again", Frame("tx", TxBytes(tx)))
				case 1:
					ok = send("tx-ext-again", ExtFrame("tx", TxBytes(tx)))
				default:
					ok = send("inv-of-delivered-tx", Frame("inv", InvPayload(1, []bitcoin.Hash32{*tx.TxHash()})))
				}
				break
			}
			tx := MkTx(rng, []int{0, 25, 1000, 100000}[rng.Intn(4)])
			sentTxs = append(sentTxs, tx)
			if rng.Intn(2) == 0 {
				ok = send("tx", Frame("tx", TxBytes(tx)))
			} else {
				ok = send("tx-ext", ExtFrame("tx", TxBytes(tx)))
			}
		case k < 17: // block
			hd := &wire.BlockHeader{Version: 1, PrevBlock: cg.prev, Timestamp: cg.ts + 1, Bits: 0x1d00ffff, Nonce: rng.Uint32()}
			rng.Read(hd.MerkleRoot[:])
			ntx := 1 + rng.Intn(6)
			var txs []*wire.MsgTx
			for j := 0; j < ntx; j++ {
				txs = append(txs, MkTx(rng, rng.Intn(200)))
			}
			mode := rng.Intn(4)
			var hash bitcoin.Hash32
			switch mode {
			case 0: // requested
				hash = *hd.BlockHash()
			case 1: // requested, other block arrives
				rng.Read(hash[:])
			}
			kind := []string{"block-requested", "block-wrong-hash", "block-unrequested", "block-cancelled"}[mode]
			if mode == 3 {
				hash = *hd.BlockHash()
			}
			if mode != 2 && pendingBlock == nil {
				h := hash
				err := s.Node.RequestBlock(ctx, h, func(ctx context.Context, header *wire.BlockHeader, n uint64, ch <-chan *wire.MsgTx) error {
					for range ch {
					}
					return nil
				}, func(context.Context) {})
				if err == nil {
					pendingBlock = &h
					if mode == 0 || mode == 3 {
						if mode == 3 {
							s.Node.CancelBlockRequest(ctx, h)
						}
					}
				}
			}
			pl := BlockPayload(hd, uint64(len(txs)), txs)
			if rng.Intn(2) == 0 {
				ok = send(kind, Frame("block", pl))
			} else {
				ok = send(kind+"-ext", ExtFrame("block", pl))
			}
			if mode == 0 || mode == 3 {
				pendingBlock = nil // completeBlock clears the request when the requested block arrives
			}
		case k < 18: // ping from peer in the middle
			ok = send("ping", Frame("ping", PingPayload(rng.Uint64())))
		case k < 19: // pong answering the node's own ping
			var nonce []byte
			for _, m := range s.Peer.Log() {
				if m.Cmd == "ping" {
					nonce = m.Payload
				}
			}
			if nonce != nil {
				ok = send("pong", Frame("pong", nonce))
			}
		default:
			if !protoconfSent {
				protoconfSent = true
				ok = send("protoconf", Frame("protoconf", Encode(wire.NewMsgProtoconf())))
			} else {
				ok = send("reject", Frame("reject", Encode(wire.NewMsgReject("tx", wire.RejectInvalid, "because"))))
			}
		}
		if !ok {
			break
		}
	}
	run.Eval(1)
	if atomic.LoadInt32(&s.Peer.WriteTimedOut) != 0 {
		// our own write gave up in the middle of a frame: the stream is cut there by the harness.
		// A node parked on a lock explains it (and is a violation); otherwise the node was just slow.
		if st := s.ReaderState(); st == "blocked-on-lock" {
			time.Sleep(2 * time.Second)
			if s.ReaderState() == "blocked-on-lock" {
				run.Violate(common.Violation{Clause: "ping-after-sequence-is-answered", Signature: "node-stopped-reading/blocked-on-lock",
					Detail:  fmt.Sprintf("the node stopped reading (its read side is parked on a lock) during sequence %v", desc),
					Witness: map[string]interface{}{"kind": "p2p-sequence", "with_tx_manager": withTx, "messages": desc, "case": idx, "seed": run.Seed}})
				return
			}
		}
		run.Inconclusive("peer-write-timed-out-while-the-node-was-slow")
		return
	}
	nonce := rng.Uint64()
	got, closed := s.PingPong(nonce, 30*time.Second)
	w := map[string]interface{}{"kind": "p2p-sequence", "with_tx_manager": withTx, "messages": desc, "case": idx, "seed": run.Seed}
	if idx < 3 {
		run.Sample(w)
	}
	shape := make([]string, len(desc))
	for i, d := range desc {
		shape[i] = d[:strings.Index(d, "[")]
	}
	run.DistinctStr(strings.Join(shape, ","))
	if got {
		atomic.AddInt64(&st.pongs, 1)
		return
	}
	if !closed {
		// second chance, then it is a swallowed ping
		got2, closed2 := s.PingPong(nonce+1, 15*time.Second)
		if got2 {
			atomic.AddInt64(&st.pongs, 1)
			run.Count("pong-only-to-second-ping", 1)
			return
		}
		if !closed2 {
			// No pong yet. Whether that is a swallowed ping or a node that is merely slow (dozens of
			// multi-megabyte messages under the race detector on a loaded machine) is decided from
			// what the node's read side is doing, not from the clock: parked in a network read or on
			// a lock although everything was sent = it will never answer; anything else = still
			// working, keep waiting (bounded) for the pong.
			hasPong := func() bool {
				for _, m := range s.Peer.Log() {
					if m.Cmd == "pong" && len(m.Payload) == 8 && (binary.LittleEndian.Uint64(m.Payload) == nonce || binary.LittleEndian.Uint64(m.Payload) == nonce+1) {
						return true
					}
				}
				return false
			}
			st1, idle := "", 0
			for i := 0; i < 90 && idle < 6; i++ {
				if hasPong() {
					atomic.AddInt64(&st.pongs, 1)
					run.Count("pong-late-node-was-busy", 1)
					return
				}
				if s.Peer.IsClosed() {
					break
				}
				// six consecutive looks, 5 s apart, at a read side that is not working (and an idle
				// write side) with no pong arriving in between: it will never answer
				if st := s.ReaderState(); st != "busy" && (st == st1 || idle == 0) {
					st1 = st
					idle++
				} else {
					st1, idle = st, 0
				}
				s.Peer.WaitFor(0, 5*time.Second, func(m Msg) bool {
					return m.Cmd == "pong" && len(m.Payload) == 8 && (binary.LittleEndian.Uint64(m.Payload) == nonce || binary.LittleEndian.Uint64(m.Payload) == nonce+1)
				})
			}
			if hasPong() {
				atomic.AddInt64(&st.pongs, 1)
				run.Count("pong-late-node-was-busy", 1)
				return
			}
			if idle < 6 {
				run.Inconclusive("no-pong-while-the-node-was-still-busy")
				return
			}
			w["bytes_hex_len"] = len(s.Peer.Sent)
			w["node_read_side"] = st1
			w["node_goroutines"] = s.NodeGoroutines()
			var tail []string
			lg := s.Peer.Log()
			for i := len(lg) - 8; i < len(lg); i++ {
				if i >= 0 {
					tail = append(tail, fmt.Sprintf("%s[%d]", lg[i].Cmd, len(lg[i].Payload)))
				}
			}
			w["received_from_node_tail"] = tail
			run.Violate(common.Violation{Clause: "ping-after-sequence-is-answered", Signature: "no-pong-connection-up/last=" + lastKind(shape),
				Detail: fmt.Sprintf("connection still up but no pong to two pings after sequence %v", desc), Witness: w})
			return
		}
	}
	// closed by the node: classify Run's error
	s.WaitRunReturn(20 * time.Second)
	cls := desyncClass(s.RunErr)
	switch {
	case strings.HasPrefix(cls, "timer:"):
		run.Inconclusive("closed-by-timer: " + cls)
	case cls == "":
		run.Violate(common.Violation{Clause: "connection-stays-up-on-conformant-traffic", Signature: "closed-without-error/last=" + lastKind(shape),
			Detail: fmt.Sprintf("node closed the connection (Run returned nil) after %v", desc), Witness: w})
	default:
		run.Violate(common.Violation{Clause: "every-message-consumed-to-its-declared-length", Signature: "desync/" + cls + "/last=" + lastKind(shape),
			Detail: fmt.Sprintf("node closed the connection: %v; sequence %v", s.RunErr, desc), Witness: w})
	}
}

func lastKind(shape []string) string {
	if len(shape) == 0 {
		return "none"
	}
	k := shape[len(shape)-1]
	if i := strings.Index(k, ":"); i > 0 {
		k = k[:i]
	}
	return k
}

func MainGenesisHash() *bitcoin.Hash32 {
	h, _ := bitcoin.NewHash32FromStr("000000000019d6689c085ae165831e934ff763ae46a2a6c172b3f1b60a8ce26f")
	return h
}

func RunC14(tier string, seed int64) int {
	ctx := common.QuietCtx()
	run := common.NewRun("C14", tier, seed, "exploration")
	run.Rule = "a real BitcoinNode (exported Run, loopback TCP) is verified by a scripted peer, then receives a seeded sequence of 1-40 well-formed messages (handled, unhandled and made-up commands; classic and extended framing; payloads 0 B to several MB; headers/inv/addr empty/one/full; blocks requested/unrequested/wrong/cancelled; tx with and without tx manager; writes split at random offsets), then a ping whose pong must arrive. distinct = distinct message-kind sequences"
	run.Assumptions = []string{"content is restricted to what gives the node no legitimate reason to hang up (headers connect, at most one protoconf, pong nonces match, no repeated version/verack)",
		"a close caused by one of the node's own timers is inconclusive, not a violation"}
	n, maxPayload, par := 400, 300000, 32
	if tier == "thorough" {
		n, maxPayload, par = 20000, 4<<20, 48
	}
	if v := os.Getenv("VERIF_N"); v != "" { // debugging aid: number of sequences
		fmt.Sscan(v, &n)
	}
	st := &c14Stats{}
	only := -1
	if v := os.Getenv("VERIF_C14_CASE"); v != "" { // debugging aid: one sequence only
		fmt.Sscan(v, &only)
	}
	// the sequences with a slowly delivered extended header run first and few at a time: in a
	// process busy with dozens of sessions, unrelated synchronisation (logger, statistics) orders
	// almost everything by accident and the race detector then has nothing to report
	var slow []int
	for i := 0; i < n; i++ {
		if i%40 == 7 && (only < 0 || i == only) {
			slow = append(slow, i)
		}
	}
	common.ParallelFor(len(slow), 2, func(k int) { runC14Sequence(ctx, run, st, slow[k], maxPayload) })
	common.ParallelFor(n, par, func(i int) {
		if i%40 != 7 && (only < 0 || i == only) {
			runC14Sequence(ctx, run, st, i, maxPayload)
		}
	})
	kinds := map[string]int64{}
	st.byKind.Range(func(k, v interface{}) bool { kinds[k.(string)] = atomic.LoadInt64(v.(*int64)); return true })
	run.Extra("observed", map[string]interface{}{"verified_sessions": st.sessions, "messages_sent": st.msgs,
		"bytes_sent": st.bytes, "pongs_received": st.pongs, "messages_by_kind": kinds})
	return run.Finish()
}
