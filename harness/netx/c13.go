package netx

import (
	"bytes"
	"context"
	"fmt"
	"math/rand"
	"reflect"
	"strings"
	"sync/atomic"
	"time"

	"verifharness/common"

	bitcoin_reader "github.com/tokenized/bitcoin_reader"
	"github.com/tokenized/bitcoin_reader/headers"
	"github.com/tokenized/config"
	"github.com/tokenized/pkg/bitcoin"
	"github.com/tokenized/pkg/wire"
	"github.com/tokenized/threads"
)

func newGenesisRepo() *headers.Repository {
	repo := headers.NewRepository(headers.DefaultConfig(), common.NewMemStore())
	repo.InitializeWithGenesis()
	repo.DisableDifficulty() // so that a header that wrongly reaches ProcessHeader would be accepted and seen
	return repo
}

func verifyLocator(repo *headers.Repository) []bitcoin.Hash32 {
	l, _ := repo.GetVerifyOnlyLocatorHashes(context.Background())
	return l
}

// hostileMsg produces one message a peer might send before it is verified.
func hostileMsg(rng *rand.Rand, cg *chainGen) (string, []byte) {
	switch rng.Intn(14) {
	case 0, 1:
		n := 1 + rng.Intn(3)
		return "headers", Frame("headers", HeadersPayload(cg.next(n)))
	case 2:
		return "addr", Frame("addr", AddrPayload(1+rng.Intn(5)))
	case 3:
		hs := make([]bitcoin.Hash32, 1+rng.Intn(4))
		for i := range hs {
			rng.Read(hs[i][:])
		}
		return "inv", Frame("inv", InvPayload(1, hs))
	case 4:
		return "tx", Frame("tx", TxBytes(MkTx(rng, 25)))
	case 5:
		return "tx-ext", ExtFrame("tx", TxBytes(MkTx(rng, 25)))
	case 6:
		hd := cg.next(1)[0]
		return "block", Frame("block", BlockPayload(hd, 1, []*wire.MsgTx{MkTx(rng, 10)}))
	case 7:
		hd := cg.next(1)[0]
		return "block-ext", ExtFrame("block", BlockPayload(hd, 1, []*wire.MsgTx{MkTx(rng, 10)}))
	case 8:
		return "getaddr", Frame("getaddr", nil)
	case 9:
		return "pong", Frame("pong", PingPayload(rng.Uint64()))
	case 10:
		return "ping", Frame("ping", PingPayload(rng.Uint64()))
	case 11:
		b := make([]byte, rng.Intn(200))
		rng.Read(b)
		return "unknown", Frame("zzz", b)
	case 12:
		return "getheaders", Frame("getheaders", Encode(wire.NewMsgGetHeaders()))
	default:
		return "sendheaders", Frame("sendheaders", nil)
	}
}

type c13Stats struct {
	sessions, preMsgs, verified, failedVerify, stalled, mgr int64
}

// checkUntouched asserts that nothing from the peer reached the repositories and that the node
// sent nothing but handshake/verification traffic. phase names the point of the check.
func checkUntouched(run *common.Run, s *Session, phase string, w map[string]interface{}, sentKinds []string) bool {
	ok := true
	v := func(clause, sig, detail string) {
		ok = false
		run.Violate(common.Violation{Clause: clause, Signature: sig + "/" + phase, Detail: detail + fmt.Sprintf(" (peer sent: %v)", sentKinds), Witness: w})
	}
	if n := atomic.LoadInt64(&s.Headers.ProcessCalls); n != 0 {
		v("nothing-reaches-header-repository", "processheader-before-verified", fmt.Sprintf("%d ProcessHeader calls while unverified", n))
	}
	if n := atomic.LoadInt64(&s.Peers.Adds); n != 0 {
		v("nothing-reaches-peer-address-book", "peers-add-before-verified", fmt.Sprintf("%d peer addresses added while unverified", n))
	}
	if s.Proc != nil {
		if ev := s.Proc.Snapshot(); len(ev) != 0 {
			v("nothing-reaches-tx-manager", "tx-processed-before-verified", fmt.Sprintf("%d tx processor events while unverified", len(ev)))
		}
	}
	want := verifyLocator(s.Headers.Repository)
	for _, m := range s.Peer.Log() {
		switch m.Cmd {
		case "version", "verack", "protoconf", "ping", "pong":
		case "getheaders":
			loc, err := ParseGetHeaders(m.Payload)
			if err != nil || !reflect.DeepEqual(loc, want) {
				v("not-asked-for-headers", "non-verification-getheaders-before-verified", "node sent a getheaders that is not the verification request")
			}
		default:
			v("never-selected-to-serve-requests", "node-sent-"+m.Cmd+"-before-verified", "node sent "+m.Cmd+" to an unverified peer")
		}
	}
	return ok
}

// txManagerTouched reports whether any of the txids announced/delivered by the peer is known to
// the tx manager.
func txTouched(ctx context.Context, s *Session, txids []bitcoin.Hash32) int {
	if s.TxManager == nil {
		return 0
	}
	n := 0
	var other [16]byte
	other[0] = 0x77
	for _, id := range txids {
		fresh, _ := s.TxManager.AddTxID(ctx, other, id)
		if !fresh {
			n++
		}
	}
	return n
}

func runC13Session(ctx context.Context, run *common.Run, st *c13Stats, idx int) {
	if run.Saturated() {
		return
	}
	rng := common.Rng(run.Seed, int64(130000+idx))
	verifyOnly := rng.Intn(4) == 0
	withTx := rng.Intn(3) != 0 && !verifyOnly
	repo := newGenesisRepo()
	s, err := StartSession(ctx, SessionOpts{VerifyOnly: verifyOnly, WithTx: withTx, Repo: repo})
	if err != nil {
		run.Inconclusive("session-start: " + err.Error())
		return
	}
	defer s.Stop(20 * time.Second)
	atomic.AddInt64(&st.sessions, 1)
	cg := &chainGen{prev: *MainGenesisHash(), ts: 1231006505, rng: rng}
	var kinds []string
	var txids []bitcoin.Hash32
	earlyHeaders := rng.Intn(4) == 0 // headers before the handshake completes desynchronise (and end) the session
	flood := func(n int, tag string) {
		for i := 0; i < n; i++ {
			k, f := hostileMsg(rng, cg)
			for k == "headers" && (tag == "during-verification" || !earlyHeaders) {
				k, f = hostileMsg(rng, cg)
			}
			kinds = append(kinds, tag+":"+k)
			atomic.AddInt64(&st.preMsgs, 1)
			if s.Peer.SendRaw(f) != nil {
				return
			}
		}
	}
	scenario := []string{"flood-then-verify", "flood-then-fail-verify", "verack-first", "repeated-version", "stall-no-verack", "stall-no-version", "repeated-version-no-verack"}[rng.Intn(7)]
	w := map[string]interface{}{"kind": "pre-verification-session", "scenario": scenario, "verify_only": verifyOnly, "with_tx_manager": withTx}
	run.Eval(1)
	defer func() {
		w["peer_sent"] = kinds
		if idx < 4 {
			run.Sample(w)
		}
		run.DistinctStr(scenario + fmt.Sprint(verifyOnly, withTx) + strings.Join(kinds, ","))
	}()

	if scenario == "repeated-version-no-verack" {
		// the version message repeated, never a verack: the handshake is not complete, so no
		// verification may start, and a correct verification reply must not be honoured
		for i := 0; i < 2+rng.Intn(3); i++ {
			s.Peer.Send("version", VersionPayload(int32(i)))
			kinds = append(kinds, "version")
			flood(rng.Intn(2), "between")
		}
		atomic.AddInt64(&st.stalled, 1)
		if i, _ := s.Peer.WaitCmd(0, "getheaders", 1200*time.Millisecond); i >= 0 {
			run.Violate(common.Violation{Clause: "handshake-needs-version-and-verack", Signature: "verification-requested-without-verack",
				Detail: "the node sent its verification getheaders although the peer never sent a verack", Witness: w})
		}
		s.Peer.Send("headers", HeadersPayload([]*wire.BlockHeader{BSVSplitHeader}))
		kinds = append(kinds, "correct-verification-reply")
		flood(1+rng.Intn(5), "after-reply")
		s.PingPong(rng.Uint64(), 2*time.Second)
		checkUntouched(run, s, scenario, w, kinds)
		if s.Node.Verified() || s.Node.IsReady() {
			run.Violate(common.Violation{Clause: "not-verified-without-handshake", Signature: "verified-without-verack", Witness: w})
		}
		return
	}
	switch scenario {
	case "stall-no-version", "stall-no-verack":
		flood(rng.Intn(8), "pre-version")
		if scenario == "stall-no-verack" {
			s.Peer.Send("version", VersionPayload(1))
			kinds = append(kinds, "version")
			flood(1+rng.Intn(8), "post-version")
		}
		atomic.AddInt64(&st.stalled, 1)
		// the node hangs up after its own 3 s handshake timer
		closed := s.Peer.WaitClosed(15 * time.Second)
		checkUntouched(run, s, scenario, w, kinds)
		if s.Node.Verified() || s.Node.IsReady() {
			run.Violate(common.Violation{Clause: "not-verified-without-handshake", Signature: "verified-without-handshake/" + scenario, Witness: w})
		}
		if !closed {
			run.Inconclusive("stalled-handshake-not-closed-within-15s")
		}
		return
	}

	flood(rng.Intn(6), "pre-version")
	switch scenario {
	case "verack-first":
		s.Peer.Send("verack", nil)
		kinds = append(kinds, "verack")
		flood(rng.Intn(4), "between")
		s.Peer.Send("version", VersionPayload(1))
		kinds = append(kinds, "version")
	case "repeated-version":
		for i := 0; i < 1+rng.Intn(3); i++ {
			s.Peer.Send("version", VersionPayload(int32(i)))
			kinds = append(kinds, "version")
			flood(rng.Intn(3), "between")
		}
		s.Peer.Send("verack", nil)
		kinds = append(kinds, "verack")
		if rng.Intn(2) == 0 {
			s.Peer.Send("verack", nil)
			kinds = append(kinds, "verack")
		}
	default:
		s.Peer.Send("version", VersionPayload(1))
		kinds = append(kinds, "version")
		flood(rng.Intn(5), "between")
		s.Peer.Send("verack", nil)
		kinds = append(kinds, "verack")
	}
	// wait for the verification request, flood again while it is outstanding
	if i, _ := s.Peer.WaitCmd(0, "getheaders", 15*time.Second); i < 0 {
		if s.Peer.IsClosed() {
			// hanging up on an unverified peer is allowed; nothing may have got through
			run.Count("closed-before-verification-request", 1)
			checkUntouched(run, s, scenario+"/closed-before-verification", w, kinds)
			return
		}
		run.Inconclusive("no-verification-request")
		fmt.Println("DEBUG no-verif-req:", scenario, kinds)
		return
	}
	flood(1+rng.Intn(10), "during-verification")
	// let the node drain what we sent: a ping is answered even when unverified
	if got, pclosed := s.PingPong(rng.Uint64(), 20*time.Second); !got {
		if pclosed || s.Peer.WaitClosed(2*time.Second) {
			// the node may legitimately hang up on an unverified peer's garbage; still nothing may have got through
			checkUntouched(run, s, scenario+"/closed-early", w, kinds)
			return
		}
		run.Inconclusive("no-pong-while-unverified")
		fmt.Println("DEBUG no-pong:", scenario, kinds)
		return
	}
	if !checkUntouched(run, s, scenario+"/before-answer", w, kinds) {
		return
	}
	if s.Node.Verified() || s.Node.IsReady() {
		run.Violate(common.Violation{Clause: "not-verified-before-proof", Signature: "verified-before-answer/" + scenario, Witness: w})
		return
	}
	_ = txids

	if scenario == "flood-then-fail-verify" {
		// failing verification interleaved with more traffic
		bad := cg.next(1)[0]
		s.Peer.Send("headers", HeadersPayload([]*wire.BlockHeader{bad}))
		kinds = append(kinds, "bad-verification-reply")
		flood(rng.Intn(6), "after-failed-verification")
		atomic.AddInt64(&st.failedVerify, 1)
		closed := s.Peer.WaitClosed(15 * time.Second)
		if !closed {
			run.Violate(common.Violation{Clause: "unverified-peer-disconnected", Signature: "not-closed-after-failed-verification", Witness: w})
		}
		checkUntouched(run, s, scenario+"/after-fail", w, kinds)
		if s.Node.Verified() {
			run.Violate(common.Violation{Clause: "not-verified-before-proof", Signature: "verified-after-failed-verification", Witness: w})
		}
		return
	}

	// correct verification
	before := len(s.Peer.Log())
	s.Peer.Send("headers", HeadersPayload([]*wire.BlockHeader{BSVSplitHeader}))
	atomic.AddInt64(&st.verified, 1)
	if verifyOnly {
		closed := s.Peer.WaitClosed(15 * time.Second)
		if !closed {
			run.Violate(common.Violation{Clause: "verify-only-disconnects-after-verification", Signature: "verify-only-stays-connected", Witness: w})
			return
		}
		if !s.Node.Verified() {
			run.Violate(common.Violation{Clause: "verified-by-bsv-header", Signature: "verify-only-not-verified", Witness: w})
		}
		for _, m := range s.Peer.Log()[before:] {
			switch m.Cmd {
			case "getaddr", "sendheaders", "getheaders", "addr", "getdata":
				run.Violate(common.Violation{Clause: "verify-only-disconnects-after-verification", Signature: "verify-only-sent-" + m.Cmd, Witness: w})
			}
		}
		if n := atomic.LoadInt64(&s.Headers.ProcessCalls); n != 0 {
			run.Violate(common.Violation{Clause: "nothing-reaches-header-repository", Signature: "verify-only-processed-headers", Witness: w})
		}
		return
	}
	if i, _ := s.Peer.WaitCmd(before, "addr", 15*time.Second); i < 0 {
		run.Violate(common.Violation{Clause: "verified-by-bsv-header", Signature: "not-accepted-after-correct-verification/" + scenario,
			Detail: fmt.Sprintf("closed=%v verified=%v", s.Peer.IsClosed(), s.Node.Verified()), Witness: w})
		return
	}
	// what was sent before verification must still have had no effect
	if n := atomic.LoadInt64(&s.Headers.ProcessCalls); n != 0 {
		run.Violate(common.Violation{Clause: "nothing-reaches-header-repository", Signature: "pre-verification-headers-processed-after-accept", Witness: w})
	}
	if n := atomic.LoadInt64(&s.Peers.Adds); n != 0 {
		run.Violate(common.Violation{Clause: "nothing-reaches-peer-address-book", Signature: "pre-verification-addr-added-after-accept", Witness: w})
	}
}

// ---- C03 peer side: replies to the verification request ----

func c03Reply(rng *rand.Rand, kind string, cg *chainGen) []byte {
	bch := &wire.BlockHeader{Version: 0x20000000, PrevBlock: BSVSplitHeader.PrevBlock, Timestamp: 1542304936, Bits: 402792411, Nonce: 3911120513}
	mr, _ := bitcoin.NewHash32FromStr("1cf31105bd6b1b4dba9ae55290ec06fff15b4567ec62a6e3863409bb3efd1944")
	bch.MerkleRoot = *mr
	junk := func(n int) []*wire.BlockHeader {
		out := make([]*wire.BlockHeader, n)
		for i := range out {
			h := &wire.BlockHeader{Version: int32(rng.Uint32()), Timestamp: rng.Uint32(), Bits: 0x1d00ffff, Nonce: rng.Uint32()}
			rng.Read(h.PrevBlock[:])
			rng.Read(h.MerkleRoot[:])
			out[i] = h
		}
		return out
	}
	switch kind {
	case "bsv":
		return HeadersPayload([]*wire.BlockHeader{BSVSplitHeader})
	case "bsv-then-junk":
		return HeadersPayload(append([]*wire.BlockHeader{BSVSplitHeader}, junk(1+rng.Intn(5))...))
	case "junk-then-bsv":
		return HeadersPayload(append(junk(1+rng.Intn(3)), BSVSplitHeader))
	case "bch":
		return HeadersPayload([]*wire.BlockHeader{bch})
	case "bch-then-bsv":
		return HeadersPayload([]*wire.BlockHeader{bch, BSVSplitHeader})
	case "child-of-genesis":
		return HeadersPayload(cg.next(1))
	case "random":
		return HeadersPayload(junk(1))
	case "empty":
		return HeadersPayload(nil)
	case "bsv-count-too-large":
		var b bytes.Buffer
		wire.WriteVarInt(&b, wire.ProtocolVersion, uint64(2+rng.Intn(1000)))
		BSVSplitHeader.Serialize(&b)
		b.WriteByte(0)
		return b.Bytes()
	case "bsv-nonzero-txcount":
		var b bytes.Buffer
		wire.WriteVarInt(&b, wire.ProtocolVersion, 1)
		BSVSplitHeader.Serialize(&b)
		b.WriteByte(1)
		return b.Bytes()
	case "bsv-mutated":
		c := BSVSplitHeader.Copy()
		c.Nonce ^= 1 << uint(rng.Intn(32))
		return HeadersPayload([]*wire.BlockHeader{&c})
	}
	return nil
}

var c03Kinds = []string{"bsv", "bsv-then-junk", "junk-then-bsv", "bch", "bch-then-bsv", "child-of-genesis", "random", "empty", "bsv-count-too-large", "bsv-nonzero-txcount", "bsv-mutated"}

// C03Peer runs the peer-side scenarios of C03.
func C03Peer(ctx context.Context, run *common.Run, tier string) {
	n := 66
	if tier == "thorough" {
		n = 3300
	}
	common.ParallelFor(n, 32, func(i int) {
		rng := common.Rng(run.Seed, int64(30000+i))
		kind := c03Kinds[i%len(c03Kinds)]
		verifyOnly := (i/len(c03Kinds))%2 == 1
		s, err := StartSession(ctx, SessionOpts{VerifyOnly: verifyOnly, Repo: newGenesisRepo()})
		if err != nil {
			run.Inconclusive("session-start: " + err.Error())
			return
		}
		defer s.Stop(20 * time.Second)
		cg := &chainGen{prev: *MainGenesisHash(), ts: 1231006505, rng: rng}
		if _, err := s.Handshake(15 * time.Second); err != nil {
			run.Inconclusive("handshake: " + err.Error())
			return
		}
		before := len(s.Peer.Log())
		s.Peer.Send("headers", c03Reply(rng, kind, cg))
		run.Eval(1)
		run.DistinctStr(fmt.Sprintf("peer-reply/%s/%v", kind, verifyOnly))
		run.Count("peer-reply/"+kind, 1)
		w := map[string]interface{}{"kind": "verification-reply", "reply": kind, "verify_only": verifyOnly}
		if i < 2 {
			run.Sample(w)
		}
		wantVerified := kind == "bsv" || kind == "bsv-then-junk" || kind == "bsv-count-too-large"
		if wantVerified && !verifyOnly {
			if j, _ := s.Peer.WaitCmd(before, "addr", 15*time.Second); j < 0 || !s.Node.Verified() || !s.Node.IsReady() {
				run.Violate(common.Violation{Clause: "verified-iff-first-header-is-bsv-split-header", Signature: "bsv-first-reply-not-verified/" + kind,
					Detail: fmt.Sprintf("verified=%v ready=%v closed=%v", s.Node.Verified(), s.Node.IsReady(), s.Peer.IsClosed()), Witness: w})
			}
			return
		}
		closed := s.Peer.WaitClosed(15 * time.Second)
		if !closed {
			run.Violate(common.Violation{Clause: "unverified-peer-disconnected", Signature: "connection-stays-up/" + kind + fmt.Sprintf("/verify-only=%v", verifyOnly), Witness: w})
			return
		}
		if !s.WaitRunReturn(20 * time.Second) {
			run.Inconclusive("run-did-not-return-within-20s-after-close")
		}
		if s.Node.Verified() != wantVerified {
			run.Violate(common.Violation{Clause: "verified-iff-first-header-is-bsv-split-header", Signature: fmt.Sprintf("verified=%v/%s", s.Node.Verified(), kind),
				Detail: fmt.Sprintf("reply %s: Verified()=%v, want %v", kind, s.Node.Verified(), wantVerified), Witness: w})
		}
		if !wantVerified {
			if n := atomic.LoadInt64(&s.Headers.ProcessCalls); n != 0 {
				run.Violate(common.Violation{Clause: "unverified-peer-disconnected", Signature: "unverified-reply-headers-processed/" + kind, Witness: w})
			}
			if n := atomic.LoadInt64(&s.Peers.Adds); n != 0 {
				run.Violate(common.Violation{Clause: "unverified-peer-disconnected", Signature: "unverified-peer-addresses-added/" + kind, Witness: w})
			}
		}
		for _, m := range s.Peer.Log()[before:] {
			if m.Cmd == "getaddr" || m.Cmd == "sendheaders" || m.Cmd == "addr" || m.Cmd == "getdata" {
				if !wantVerified || verifyOnly {
					run.Violate(common.Violation{Clause: "unverified-peer-disconnected", Signature: "node-sent-" + m.Cmd + "/" + kind, Witness: w})
				}
			}
		}
	})
}

// ---- manager level: unverified peers are never selected ----

func runC13Manager(ctx context.Context, run *common.Run, st *c13Stats, idx int) {
	if run.Saturated() {
		return
	}
	rng := common.Rng(run.Seed, int64(135000+idx))
	repo := newGenesisRepo()
	spyH := &SpyHeaders{Repository: repo}
	book := NewSpyPeers()
	var peers []*Peer
	roles := []string{"never-verack", "handshake-then-silent", "fail-verification", "handshake-then-silent"}
	for range roles {
		p, err := Listen()
		if err != nil {
			run.Inconclusive("listen")
			return
		}
		peers = append(peers, p)
		book.Inner.Add(ctx, p.Addr())
	}
	cfg := bitcoin_reader.DefaultConfig()
	cfg.DesiredNodeCount = 8
	cfg.ScanCount = 0
	cfg.StartupDelay = config.NewDuration(time.Hour)
	m := bitcoin_reader.NewNodeManager("/verif:1/", cfg, spyH, book)
	txm := bitcoin_reader.NewTxManager(time.Hour)
	m.SetTxManager(txm)
	thread := threads.NewInterruptableThread("manager", m.Run)
	done := thread.GetCompleteChannel()
	thread.Start(ctx)
	defer func() {
		thread.Stop(ctx)
		select {
		case <-done:
		case <-time.After(30 * time.Second):
			run.Inconclusive("manager-run-did-not-return-within-30s")
		}
		for _, p := range peers {
			p.Close()
		}
	}()
	cg := &chainGen{prev: *MainGenesisHash(), ts: 1231006505, rng: rng}
	for i, p := range peers {
		i, p := i, p
		go func() {
			if err := p.Accept(10 * time.Second); err != nil {
				return
			}
			switch roles[i] {
			case "never-verack":
				p.Send("version", VersionPayload(1))
			case "handshake-then-silent":
				p.Send("version", VersionPayload(1))
				p.Send("verack", nil)
			case "fail-verification":
				p.Send("version", VersionPayload(1))
				p.Send("verack", nil)
				if j, _ := p.WaitCmd(0, "getheaders", 10*time.Second); j >= 0 {
					p.Send("headers", HeadersPayload(cg.next(1)))
				}
			}
		}()
	}
	atomic.AddInt64(&st.mgr, 1)
	run.Eval(1)
	run.DistinctStr(fmt.Sprintf("manager/%d", idx))
	w := map[string]interface{}{"kind": "manager-with-unverified-peers", "roles": roles}
	// hammer the request entry points while the peers are connected but unverified
	deadline := time.Now().Add(2500 * time.Millisecond)
	calls := 0
	for time.Now().Before(deadline) {
		m.RequestHeaders(ctx)
		m.RequestTxs(ctx)
		_, err := m.RequestBlock(ctx, *MainGenesisHash(), func(context.Context, *wire.BlockHeader, uint64, <-chan *wire.MsgTx) error { return nil }, func(context.Context) {})
		calls++
		if err == nil {
			run.Violate(common.Violation{Clause: "never-selected-to-serve-requests", Signature: "requestblock-served-by-unverified-peer", Witness: w})
			break
		}
		time.Sleep(20 * time.Millisecond)
	}
	run.Count("manager-request-rounds", int64(calls))
	want := verifyLocator(repo)
	for i, p := range peers {
		if p.conn == nil {
			continue
		}
		for _, msg := range p.Log() {
			switch msg.Cmd {
			case "getdata", "sendheaders", "getaddr", "addr":
				run.Violate(common.Violation{Clause: "never-selected-to-serve-requests", Signature: "manager-sent-" + msg.Cmd + "-to-unverified/" + roles[i], Witness: w})
			case "getheaders":
				loc, err := ParseGetHeaders(msg.Payload)
				if err != nil || !reflect.DeepEqual(loc, want) {
					run.Violate(common.Violation{Clause: "never-selected-to-serve-requests", Signature: "manager-header-request-to-unverified/" + roles[i], Witness: w})
				}
			}
		}
	}
	if n := atomic.LoadInt64(&spyH.ProcessCalls); n != 0 {
		run.Violate(common.Violation{Clause: "nothing-reaches-header-repository", Signature: "manager-processheader-from-unverified", Witness: w})
	}
}

func RunC13(tier string, seed int64) int {
	ctx := common.QuietCtx()
	run := common.NewRun("C13", tier, seed, "exploration")
	run.Rule = "real BitcoinNode (full / verify-only, with / without tx manager) over loopback against a scripted peer that sends headers (valid extensions of our tip), addr, inv, tx, block, extended tx/block, getaddr, ping/pong, repeated version/verack, verack-first, unknown commands before the version, between version and verack, while the verification request is outstanding and around a failing verification; spies on header repository, peer book and tx processor; plus a real NodeManager.Run whose peers stall or fail verification while RequestHeaders/RequestTxs/RequestBlock are hammered. distinct = (scenario, node kind, message-kind sequence)"
	run.Assumptions = []string{"a ping is answered by an unverified node; it is used as the barrier that everything sent before it has been handled",
		"stalled handshakes are ended by the node's own 3 s timer"}
	n, nm := 240, 6
	if tier == "thorough" {
		n, nm = 12000, 150
	}
	st := &c13Stats{}
	common.ParallelFor(n, 48, func(i int) { runC13Session(ctx, run, st, i) })
	common.ParallelFor(nm, 6, func(i int) { runC13Manager(ctx, run, st, i) })
	run.Extra("observed", map[string]int64{"sessions": st.sessions, "messages_sent_while_unverified": st.preMsgs,
		"sessions_verified_correctly": st.verified, "sessions_failing_verification": st.failedVerify,
		"sessions_stalling_handshake": st.stalled, "manager_scenarios": st.mgr})
	return run.Finish()
}
