package netx

import (
	"bufio"
	"bytes"
	"context"
	"encoding/binary"
	"encoding/hex"
	"fmt"
	"math/big"
	"math/rand"
	"os"
	"os/exec"
	"path/filepath"
	"regexp"
	"runtime"
	"sort"
	"strings"
	"sync"
	"sync/atomic"
	"time"

	"verifharness/common"
	"verifharness/hdr"

	"github.com/tokenized/bitcoin_reader/headers"
	"github.com/tokenized/pkg/bitcoin"
	"github.com/tokenized/pkg/wire"
)

// C15Case is one hostile input delivered at one stage of a session.
type C15Case struct {
	Class string
	Stage string // before-handshake during-verification ready
	Bytes []byte
	// ReqOwn (stage ready-block-requested): request the block whose header is in Bytes instead of
	// an unrelated hash, so that the input reaches the block handler as the requested block
	ReqOwn bool
	// AltHeaders: the node has an alternate headers handler installed (the message is teed to it)
	AltHeaders bool
	// KeepOpen: do not close the peer side after sending (the node must cope either way)
}

func c15(class, stage string, b []byte) C15Case { return C15Case{Class: class, Stage: stage, Bytes: b} }

var c15Stages = []string{"before-handshake", "during-verification", "ready", "ready-block-requested"}

func varint(v uint64) []byte {
	var b bytes.Buffer
	wire.WriteVarInt(&b, wire.ProtocolVersion, v)
	return b.Bytes()
}

func le32(v uint32) []byte { b := make([]byte, 4); binary.LittleEndian.PutUint32(b, v); return b }
func le64(v uint64) []byte { b := make([]byte, 8); binary.LittleEndian.PutUint64(b, v); return b }

var hugeCounts = []uint64{0xfd00, 1 << 16, 1 << 24, 1 << 31, 1 << 32, 1 << 40, 1 << 47, 1 << 48, 1 << 63, ^uint64(0)}

// c15Cases builds the deterministic case list for (seed, batch).
func c15Cases(seed int64, batch, perBatch int) []C15Case {
	rng := common.Rng(seed, int64(150000+batch))
	var out []C15Case
	stage := func() string { return c15Stages[rng.Intn(4)] }
	validMsgs := func() map[string][]byte {
		hs := make([]bitcoin.Hash32, 3)
		for i := range hs {
			rng.Read(hs[i][:])
		}
		cg := &chainGen{prev: *MainGenesisHash(), ts: 1231006505, rng: rng}
		return map[string][]byte{
			"version":   VersionPayload(5),
			"verack":    nil,
			"headers":   HeadersPayload(cg.next(2)),
			"addr":      AddrPayload(3),
			"inv":       InvPayload(1, hs),
			"tx":        TxBytes(MkTx(rng, 30)),
			"block":     BlockPayload(cg.next(1)[0], 2, []*wire.MsgTx{MkTx(rng, 10), MkTx(rng, 10)}),
			"ping":      PingPayload(rng.Uint64()),
			"pong":      PingPayload(rng.Uint64()),
			"reject":    Encode(wire.NewMsgReject("tx", wire.RejectInvalid, "r")),
			"protoconf": Encode(wire.NewMsgProtoconf()),
			"getaddr":   nil,
		}
	}
	cmds := []string{"version", "verack", "headers", "addr", "inv", "tx", "block", "ping", "pong", "reject", "protoconf", "getaddr"}
	for len(out) < perBatch {
		vm := validMsgs()
		switch k := rng.Intn(20); {
		case k < 2:
			b := make([]byte, 1+rng.Intn(2000))
			rng.Read(b)
			out = append(out, c15("random-bytes", stage(), b))
		case k < 3:
			b := make([]byte, 20+rng.Intn(200))
			rng.Read(b)
			binary.LittleEndian.PutUint32(b, Magic)
			out = append(out, c15("magic-then-random", stage(), b))
		case k < 8: // mutated valid message
			cmd := cmds[rng.Intn(len(cmds))]
			f := Frame(cmd, vm[cmd])
			switch rng.Intn(6) {
			case 0:
				f[20] ^= 0xff
				out = append(out, c15("bad-checksum/" + cmd, stage(), f))
			case 1:
				binary.LittleEndian.PutUint32(f[16:], uint32(len(f)-24)+uint32(1+rng.Intn(50)))
				out = append(out, c15("length-plus/" + cmd, stage(), f))
			case 2:
				if len(f) > 25 {
					binary.LittleEndian.PutUint32(f[16:], uint32(len(f)-24)-uint32(1+rng.Intn(len(f)-24)))
				}
				out = append(out, c15("length-minus/" + cmd, stage(), f))
			case 3:
				cut := rng.Intn(len(f))
				out = append(out, c15("truncated/" + cmd, stage(), f[:cut]))
			case 4:
				decl := []uint32{1 << 20, 1 << 31, 0xfffffffe, 0xffffffff}[rng.Intn(4)]
				binary.LittleEndian.PutUint32(f[16:], decl)
				out = append(out, c15(fmt.Sprintf("declared-long-then-close/%s/%d", cmd, decl), stage(), f))
			default:
				if len(f) > 24 {
					f[24+rng.Intn(len(f)-24)] ^= byte(1 + rng.Intn(255))
					cs := checksum(f[24:])
					copy(f[20:24], cs[:])
				}
				out = append(out, c15("payload-byte-flip/" + cmd, stage(), f))
			}
		case k < 10: // extended header with hostile lengths
			// the inner command field is 12 bytes and need not contain a NUL
			cmd := []string{"tx", "block", "zzz", "headers", "ping", "zqzqzqzqzqzq", "blockblockbl"}[rng.Intn(7)]
			l := []uint64{0, 1, 1 << 31, 1 << 32, 1 << 40, 1 << 63, ^uint64(0)}[rng.Intn(7)]
			tail := make([]byte, rng.Intn(120))
			rng.Read(tail)
			if cmd == "tx" && rng.Intn(2) == 0 {
				tail = TxBytes(MkTx(rng, 20))
			}
			out = append(out, c15(fmt.Sprintf("ext-declared-length/%s/%d", cmd, l), stage(), append(ExtHeader(cmd, l), tail...)))
		case k < 11: // classic header declaring a huge tx/block/unknown
			cmd := []string{"tx", "block", "zzz", "reject", "version", "addr"}[rng.Intn(6)]
			l := []uint32{1 << 31, 0xffffffff, 1 << 30}[rng.Intn(3)]
			tail := make([]byte, rng.Intn(100))
			rng.Read(tail)
			out = append(out, c15(fmt.Sprintf("classic-declared-length/%s/%d", cmd, l), stage(), append(FrameHeader(Magic, cmd, l, [4]byte{}), tail...)))
		case k < 13 && rng.Intn(2) == 0: // a headers message cut in the middle, then the peer hangs up
			cg := &chainGen{prev: *MainGenesisHash(), ts: 1231006505, rng: rng}
			f := Frame("headers", HeadersPayload(cg.next(1+rng.Intn(4))))
			cut := 25 + rng.Intn(len(f)-25)
			st := []string{"during-verification", "ready"}[rng.Intn(2)]
			out = append(out, C15Case{Class: "headers-cut-mid-message", Stage: st, Bytes: f[:cut], AltHeaders: rng.Intn(3) > 0})
		case k < 13: // headers with hostile bits / timestamps (ready stage reaches ProcessHeader)
			exp := uint32(rng.Intn(256))
			mant := mantissasC15[rng.Intn(len(mantissasC15))]
			hd := &wire.BlockHeader{Version: 1, PrevBlock: *MainGenesisHash(), Timestamp: []uint32{0, 1, 0x7fffffff, 0xffffffff, 1231006505}[rng.Intn(5)], Bits: exp<<24 | mant, Nonce: rng.Uint32()}
			out = append(out, c15(fmt.Sprintf("headers-bits/exp=%d/mant=%06x", exp, mant), "ready", Frame("headers", HeadersPayload([]*wire.BlockHeader{hd}))))
		case k < 17: // hostile counts inside otherwise tiny messages
			c := hugeCounts[rng.Intn(len(hugeCounts))]
			switch rng.Intn(10) {
			case 0:
				p := append(le32(1), varint(c)...)
				p = append(p, bytes.Repeat([]byte{0}, 45)...)
				out = append(out, c15(fmt.Sprintf("tx-input-count/%d", c), stage(), Frame("tx", p)))
			case 1:
				p := append(le32(1), varint(0)...)
				p = append(p, varint(c)...)
				p = append(p, bytes.Repeat([]byte{0}, 45)...)
				out = append(out, c15(fmt.Sprintf("tx-output-count/%d", c), stage(), Frame("tx", p)))
			case 2:
				p := append(le32(1), varint(1)...)
				p = append(p, make([]byte, 36)...)
				p = append(p, varint(c)...)
				p = append(p, bytes.Repeat([]byte{0}, 20)...)
				out = append(out, c15(fmt.Sprintf("tx-script-length/%d", c), stage(), Frame("tx", p)))
			case 3:
				p := append(le32(1), varint(c)...)
				p = append(p, bytes.Repeat([]byte{0}, 45)...)
				out = append(out, c15(fmt.Sprintf("ext-tx-input-count/%d", c), stage(), ExtFrame("tx", p)))
			case 4:
				out = append(out, c15(fmt.Sprintf("inv-count/%d", c), stage(), Frame("inv", append(varint(c), make([]byte, 36)...))))
			case 5:
				out = append(out, c15(fmt.Sprintf("addr-count/%d", c), stage(), Frame("addr", append(varint(c), make([]byte, 30)...))))
			case 6:
				out = append(out, c15(fmt.Sprintf("headers-count/%d", c), stage(), Frame("headers", append(varint(c), make([]byte, 81)...))))
			case 7:
				p := append(varint(2), 't', 'x', 0x10)
				p = append(p, varint(c)...)
				p = append(p, 'x')
				out = append(out, c15(fmt.Sprintf("reject-reason-length/%d", c), stage(), Frame("reject", p)))
			case 8:
				v := VersionPayload(1)
				// user agent length is the varint after 80 bytes
				p := append(append([]byte{}, v[:80]...), varint(c)...)
				p = append(p, 'a', 'b', 'c', 0, 0, 0, 0, 0)
				out = append(out, c15(fmt.Sprintf("version-useragent-length/%d", c), stage(), Frame("version", p)))
			default:
				cg := &chainGen{prev: *MainGenesisHash(), ts: 1231006505, rng: rng}
				p := BlockPayload(cg.next(1)[0], c, []*wire.MsgTx{MkTx(rng, 5)})
				out = append(out, c15(fmt.Sprintf("block-tx-count/%d", c), stage(), Frame("block", p)))
			}
		case k < 18 && rng.Intn(3) == 0: // a peer that only sends: pings are answered at every stage, nobody reads the pongs
			n := 400000 + rng.Intn(100000) // ~13-16 MB of replies: more than the loopback socket buffers plus the 1000-message queue hold
			one := Frame("ping", PingPayload(rng.Uint64()))
			out = append(out, C15Case{Class: "ping-flood-peer-not-reading", Stage: stage(), Bytes: bytes.Repeat(one, n)})
		case k < 18: // floods that fill the handshake channel
			n := []int{11, 12, 30}[rng.Intn(3)]
			cmd := []string{"verack", "version"}[rng.Intn(2)]
			var b []byte
			for i := 0; i < n; i++ {
				if cmd == "verack" {
					b = append(b, Frame("verack", nil)...)
				} else {
					b = append(b, Frame("version", VersionPayload(int32(i)))...)
				}
			}
			out = append(out, c15(fmt.Sprintf("%s-flood/%d", cmd, n), stage(), b))
		case k < 19: // wrong network magic / bad command characters
			f := Frame("ping", PingPayload(1))
			if rng.Intn(2) == 0 {
				binary.LittleEndian.PutUint32(f, rng.Uint32())
				out = append(out, c15("wrong-magic", stage(), f))
			} else {
				f[4], f[5] = 0xff, 0xfe
				out = append(out, c15("invalid-command-characters", stage(), f))
			}
		default: // several protoconf / pong with wrong nonce / zero-length everything
			switch rng.Intn(7) {
			case 3, 4, 5, 6: // blocks while a block request is outstanding (the block handler is installed)
				cg := &chainGen{prev: *MainGenesisHash(), ts: 1231006505, rng: rng}
				hd := cg.next(1)[0]
				var txs []*wire.MsgTx
				for j := 1 + rng.Intn(4); j > 0; j-- {
					txs = append(txs, MkTx(rng, rng.Intn(100)))
				}
				pl := BlockPayload(hd, uint64(len(txs)), txs)
				own := rng.Intn(2) == 0
				kind := "well-formed"
				switch rng.Intn(5) {
				case 0:
					pl = pl[:80+rng.Intn(len(pl)-80)]
					kind = "cut-after-header"
				case 1:
					pl = BlockPayload(hd, uint64(len(txs))+1+uint64(rng.Intn(3)), txs)
					kind = "count-above-txs"
				case 2:
					pl = append(pl, TxBytes(MkTx(rng, 20))...)
					kind = "tx-beyond-count"
				case 3:
					rng.Read(pl[80+rng.Intn(len(pl)-80):])
					kind = "garbage-after-header"
				}
				f := Frame("block", pl)
				if rng.Intn(2) == 0 {
					f = ExtFrame("block", pl)
					kind += "-ext"
				}
				req := "other-hash"
				if own {
					req = "own-hash"
				}
				out = append(out, C15Case{Class: "block-while-requested/" + kind + "/" + req, Stage: "ready-block-requested", Bytes: f, ReqOwn: own})
			case 0:
				out = append(out, c15("protoconf-twice", stage(), append(Frame("protoconf", vm["protoconf"]), Frame("protoconf", vm["protoconf"])...)))
			case 1:
				out = append(out, c15("pong-wrong-nonce", stage(), Frame("pong", PingPayload(rng.Uint64()))))
			default:
				cmd := cmds[rng.Intn(len(cmds))]
				out = append(out, c15("empty-payload/" + cmd, stage(), Frame(cmd, nil)))
			}
		}
	}
	for i := range out {
		if rng.Intn(3) == 0 {
			out[i].AltHeaders = true
		}
	}
	return out
}

var mantissasC15 = []uint32{0, 1, 0x7fffff, 0x800000, 0x80ffff, 0x00ffff, 0xffffff, 0x010000}

func classRoot(c string) string {
	parts := strings.Split(c, "/")
	if len(parts) > 2 {
		return parts[0] + "/" + parts[1]
	}
	if len(parts) == 2 && (strings.HasSuffix(parts[0], "-count") || strings.HasSuffix(parts[0], "-length") || strings.HasSuffix(parts[0], "-flood") || strings.HasPrefix(parts[0], "headers-bits")) {
		return parts[0]
	}
	return c
}

// ---- worker ----

type c15Canary struct {
	s *Session
}

// blockHeaderOffset returns where the 80-byte block header starts in a classic (24) or extended
// (44) block frame, 0 if the bytes are no block frame.
func blockHeaderOffset(b []byte) int {
	if len(b) < 24 {
		return 0
	}
	cmd := string(bytes.TrimRight(b[4:16], "\x00"))
	switch {
	case cmd == "block":
		return 24
	case cmd == "extmsg" && len(b) >= 44 && string(bytes.TrimRight(b[24:36], "\x00")) == "block":
		return 44
	}
	return 0
}

func reverse32(b []byte) []byte {
	out := make([]byte, len(b))
	for i := range b {
		out[len(b)-1-i] = b[i]
	}
	return out
}

func newC15Repo() *headers.Repository {
	repo := headers.NewRepository(headers.DefaultConfig(), common.NewMemStore())
	repo.InitializeWithGenesis() // difficulty ENABLED: production configuration
	return repo
}

// runC15Case executes one case in this process. Verdict strings: "ok", "inconclusive:<why>", "violation:<sig>:<detail>".
func runC15Case(ctx context.Context, c C15Case, canary *Session) string {
	repo := newC15Repo()
	s, err := StartSession(ctx, SessionOpts{WithTx: true, Repo: repo, HeaderHandler: c.AltHeaders})
	if err != nil {
		return "inconclusive:session-start"
	}
	stopped := false
	defer func() {
		if !stopped {
			s.Stop(30 * time.Second)
		}
	}()
	switch c.Stage {
	case "during-verification":
		if _, err := s.Handshake(15 * time.Second); err != nil {
			return "inconclusive:handshake"
		}
	case "ready", "ready-block-requested":
		if err := s.Verify(15 * time.Second); err != nil {
			return "inconclusive:verify"
		}
		if c.Stage == "ready-block-requested" {
			var h bitcoin.Hash32
			for i := range h {
				h[i] = 0xaa
			}
			if off := blockHeaderOffset(c.Bytes); c.ReqOwn && off > 0 && len(c.Bytes) >= off+80 {
				hd := &wire.BlockHeader{}
				if hd.Deserialize(bytes.NewReader(c.Bytes[off:off+80])) == nil {
					h = *hd.BlockHash()
				}
			}
			if err := s.Node.RequestBlock(ctx, h, func(ctx context.Context, header *wire.BlockHeader, n uint64, ch <-chan *wire.MsgTx) error {
				for range ch {
				}
				return nil
			}, func(context.Context) {}); err != nil {
				return "inconclusive:request-block"
			}
		}
	}
	if c.Class == "ping-flood-peer-not-reading" {
		// the node's replies pile up in the socket buffers and then in its outgoing queue; our own
		// writes stall once the node stops reading, so send in the background, then hang up
		s.Peer.PauseReading()
		sent := make(chan struct{})
		go func() { s.Peer.SendRaw(c.Bytes); close(sent) }()
		select {
		case <-sent:
		case <-time.After(8 * time.Second):
		}
		s.Peer.CloseConn()
		if !s.WaitRunReturn(30 * time.Second) {
			st := goroutineStateOf("bitcoin_reader")
			stopped = true
			go s.Stop(5 * time.Second)
			return "violation:run-does-not-return-after-close/" + st + ":Run still running 30 s after a peer that never read its replies closed the connection"
		}
		stopped = true
		return "ok"
	}
	s.Peer.SendRaw(c.Bytes)
	// barrier: a ping is either answered (still in sync), or the node hangs up, or it keeps
	// waiting for bytes the input declared but never sent
	s.PingPong(0x5151515151515151, 1500*time.Millisecond)
	// repositories unaffected: the only way an input may change the header repository is by
	// containing a header the repository's acceptance rule admits (known parent, well-formed
	// bits, hash <= the target its bits encode; below height 556767 the required-bits rule does
	// not apply) -- a seeded bits value with exponent >= 30 and a lucky nonce is such a header
	for h := repo.Height(); h > 0; h-- {
		hd, err := repo.Header(ctx, h)
		prev, _ := repo.Hash(ctx, h-1)
		if err != nil || hd == nil || prev == nil {
			return fmt.Sprintf("violation:repository-changed:height %d after hostile input, header unreadable", h)
		}
		target, neg, over := hdr.RefCompactTarget(hd.Bits)
		hv := new(big.Int).SetBytes(reverse32(hd.BlockHash()[:]))
		if !hd.PrevBlock.Equal(prev) || neg || over || target.Sign() == 0 || hv.Cmp(target) > 0 {
			return fmt.Sprintf("violation:repository-changed:height %d after hostile input (bits %08x, hash above target or unlinked)", h, hd.Bits)
		}
	}
	// the peer hangs up; Run must return
	s.Peer.CloseConn()
	if !s.WaitRunReturn(30 * time.Second) {
		st := goroutineStateOf("bitcoin_reader")
		stopped = true
		go s.Stop(5 * time.Second)
		return "violation:run-does-not-return-after-close/" + st + ":Run still running 30 s after the peer closed the connection"
	}
	stopped = true
	s.Stop(30 * time.Second)
	// other connections unaffected
	if canary != nil {
		if got, _ := canary.PingPong(rand.Uint64(), 20*time.Second); !got {
			return "violation:other-connection-affected:canary connection no longer answers ping"
		}
	}
	return "ok"
}

var frameRe = regexp.MustCompile(`github.com/tokenized/bitcoin_reader[./(*a-zA-Z0-9_]*\)?\.([A-Za-z0-9_]+)`)

// goroutineStateOf summarises where goroutines with frames of the given package are parked.
func goroutineStateOf(pkg string) string {
	buf := make([]byte, 1<<20)
	n := runtime.Stack(buf, true)
	blocks := strings.Split(string(buf[:n]), "\n\n")
	seen := map[string]bool{}
	var out []string
	for _, b := range blocks {
		if !strings.Contains(b, pkg) {
			continue
		}
		lines := strings.Split(b, "\n")
		state := ""
		if i := strings.Index(lines[0], "["); i >= 0 {
			state = strings.TrimSuffix(lines[0][i+1:], "]:")
			if j := strings.Index(state, ","); j >= 0 {
				state = state[:j]
			}
		}
		for _, l := range lines[1:] {
			if m := frameRe.FindStringSubmatch(l); m != nil && !strings.Contains(l, "verifharness") {
				if !strings.Contains(state, "chan send") && !strings.Contains(state, "sync.") && !strings.Contains(state, "semacquire") {
					break
				}
				k := state + "@" + m[1]
				if !seen[k] {
					seen[k] = true
					out = append(out, k)
				}
				break
			}
		}
	}
	sort.Strings(out)
	if len(out) > 4 {
		out = out[:4]
	}
	if len(out) == 0 {
		return "no-goroutine-blocked-on-channel-or-lock"
	}
	return strings.Join(out, "+")
}

// C15Worker runs one batch and journals every case before executing it.
func C15Worker(seed int64, batch, perBatch int, journal string, only int) int {
	ctx := common.QuietCtx()
	f, err := os.OpenFile(journal, os.O_CREATE|os.O_WRONLY|os.O_APPEND, 0o644)
	if err != nil {
		fmt.Println(err)
		return 2
	}
	defer f.Close()
	cases := c15Cases(seed, batch, perBatch)
	canary, err := StartSession(ctx, SessionOpts{WithTx: true, Repo: newC15Repo()})
	if err == nil {
		err = canary.Verify(15 * time.Second)
	}
	if err != nil {
		fmt.Fprintf(f, "CANARY-FAILED %v\n", err)
		f.Sync()
		return 3
	}
	for i, c := range cases {
		if only >= 0 && i != only {
			continue
		}
		if only <= -2 && i < -only-2 {
			continue
		}
		stageStr := c.Stage
		if c.AltHeaders {
			stageStr += "+alt-headers-handler"
		}
		fmt.Fprintf(f, "START %d %s %s %s\n", i, stageStr, c.Class, hex.EncodeToString(head(c.Bytes, 400)))
		f.Sync()
		v := runC15Case(ctx, c, canary)
		fmt.Fprintf(f, "END %d %s\n", i, v)
		f.Sync()
	}
	if got, _ := canary.PingPong(7, 20*time.Second); !got {
		fmt.Fprintf(f, "CANARY-DEAD\n")
	} else {
		fmt.Fprintf(f, "CANARY-ALIVE\n")
	}
	f.Sync()
	canary.Stop(10 * time.Second)
	return 0
}

func head(b []byte, n int) []byte {
	if len(b) > n {
		return b[:n]
	}
	return b
}

// ---- supervisor ----

type c15Result struct {
	started, ended int
	lastStart      string
	lastIdx        int
	verdicts       map[int]string
	classes        map[int]string
	stages         map[int]string
	hexes          map[int]string
	canary         string
}

func readJournal(path string) *c15Result {
	r := &c15Result{verdicts: map[int]string{}, classes: map[int]string{}, stages: map[int]string{}, hexes: map[int]string{}, lastIdx: -1}
	f, err := os.Open(path)
	if err != nil {
		return r
	}
	defer f.Close()
	sc := bufio.NewScanner(f)
	sc.Buffer(make([]byte, 1<<20), 1<<24)
	for sc.Scan() {
		l := sc.Text()
		switch {
		case strings.HasPrefix(l, "START "):
			var i int
			var st, cl, hx string
			fmt.Sscanf(l, "START %d %s %s %s", &i, &st, &cl, &hx)
			r.started++
			r.lastIdx = i
			r.classes[i], r.stages[i], r.hexes[i] = cl, st, hx
		case strings.HasPrefix(l, "END "):
			var i int
			fmt.Sscanf(l, "END %d", &i)
			r.ended++
			r.verdicts[i] = strings.SplitN(l, " ", 3)[2]
		case strings.HasPrefix(l, "CANARY"):
			r.canary = l
		}
	}
	return r
}

func deathKind(stderr string) string {
	switch {
	// one root cause, three faces depending on the declared size and the memory budget
	case strings.Contains(stderr, "out of memory"), strings.Contains(stderr, "makeslice"),
		strings.Contains(stderr, "address space collisions"), strings.Contains(stderr, "cannot allocate"):
		return "allocation-sized-by-declared-length"
	case strings.Contains(stderr, "index out of range"):
		return "panic-index-out-of-range"
	case strings.Contains(stderr, "nil pointer"):
		return "panic-nil-pointer"
	case strings.Contains(stderr, "concurrent map"):
		return "fatal-concurrent-map"
	case strings.Contains(stderr, "panic:"):
		return "panic-other"
	case strings.Contains(stderr, "fatal error:"):
		return "fatal-other"
	case strings.Contains(stderr, "SIGQUIT"):
		return "hang-watchdog"
	}
	return "exit-unknown"
}

func topRepoFrame(stderr string) string {
	for _, l := range strings.Split(stderr, "\n") {
		if strings.Contains(l, "github.com/tokenized/") && !strings.Contains(l, "verifharness") && strings.Contains(l, "(") {
			l = strings.TrimSpace(l)
			if i := strings.LastIndex(l, "("); i > 0 {
				l = l[:i]
			}
			if j := strings.LastIndex(l, "/"); j >= 0 {
				l = l[j+1:]
			}
			return l
		}
	}
	return "?"
}

func spawnWorker(self string, seed int64, batch, perBatch int, dir string, only int, race bool, memKB int) (*c15Result, string, error) {
	tag := fmt.Sprintf("b%d", batch)
	if only >= 0 {
		tag += fmt.Sprintf("-only%d", only)
	}
	journal := filepath.Join(dir, tag+".journal")
	errPath := filepath.Join(dir, tag+".stderr")
	os.Remove(journal)
	cmdline := fmt.Sprintf("exec timeout -s QUIT 600 %s c15worker %d %d %d %s %d", self, seed, batch, perBatch, journal, only)
	if memKB > 0 && !race {
		cmdline = fmt.Sprintf("ulimit -v %d; ", memKB) + cmdline
	}
	cmd := exec.Command("bash", "-c", cmdline)
	ef, _ := os.Create(errPath)
	cmd.Stderr = ef
	cmd.Stdout = ef
	cmd.Env = append(os.Environ(), "GOTRACEBACK=all")
	err := cmd.Run()
	ef.Close()
	eb, _ := os.ReadFile(errPath)
	if len(eb) > 200000 {
		eb = eb[:200000]
	}
	return readJournal(journal), string(eb), err
}

func RunC15(tier string, seed int64, race bool) int {
	run := common.NewRun("C15", tier, seed, "exploration")
	if race {
		run.Phase = "race"
	}
	run.Rule = "supervised worker processes (memory budget 4 GiB via ulimit -v) each host a canary connection plus one fresh real BitcoinNode per case (difficulty enabled, real tx manager and peer book); each case delivers one hostile byte string at one of four stages (before handshake, during verification, ready, ready with a block request outstanding), a third of them with an alternate headers handler installed on the node, then the peer hangs up. Oracle: worker alive, canary still answers ping, repository unchanged, Run returns. Every case is journalled (fsync) before it runs, a dead worker is attributed to the last journalled case and that case is re-run alone. distinct = (input class root, stage)"
	run.Assumptions = []string{"a process that needs more than 4 GiB of address space for one peer-declared size is counted as aborted (ulimit -v 4194304)",
		"a Run that has not returned 30 s after the peer closed is classified by goroutine state; repeated version/verack are hostile input here, not conformant traffic"}
	self, _ := os.Executable()
	dir, _ := os.MkdirTemp("", "c15-")
	if keep := os.Getenv("VERIF_C15_KEEP"); keep != "" { // debugging aid: keep journals and worker output
		os.MkdirAll(keep, 0o755)
		dir = keep
	} else {
		defer os.RemoveAll(dir)
	}
	batches, perBatch := 16, 60
	if tier == "thorough" {
		batches, perBatch = 160, 150
	}
	if race {
		batches, perBatch = batches/4, perBatch
	}
	var mu sync.Mutex
	var deaths, hangs int64
	classSeen := map[string]int{}
	common.ParallelFor(batches, 8, func(b int) {
		from := 0
		for attempt := 0; attempt < 12 && from < perBatch; attempt++ {
			only := -1
			if from > 0 {
				only = -from - 2
			}
			res, stderr, err := spawnWorker(self, seed, b, perBatch, dir, only, race, 4194304)
			mu.Lock()
			for i, v := range res.verdicts {
				run.Eval(1)
				k := classRoot(res.classes[i]) + "@" + res.stages[i]
				classSeen[k]++
				run.DistinctStr(k)
				if b == 0 && i < 3 {
					run.Sample(map[string]interface{}{"class": res.classes[i], "stage": res.stages[i], "bytes_hex_prefix": res.hexes[i], "verdict": v})
				}
				switch {
				case v == "ok":
				case strings.HasPrefix(v, "inconclusive:"):
					run.Inconclusive(v)
				default:
					parts := strings.SplitN(v, ":", 3)
					detail := ""
					if len(parts) > 2 {
						detail = parts[2]
					}
					run.Violate(common.Violation{Clause: "connection-continues-or-closes-and-run-returns", Signature: parts[1] + "/" + classRoot(res.classes[i]),
						Detail:  fmt.Sprintf("%s at stage %s: %s", res.classes[i], res.stages[i], detail),
						Witness: map[string]interface{}{"kind": "hostile-input", "class": res.classes[i], "stage": res.stages[i], "bytes_hex_prefix": res.hexes[i], "seed": seed, "batch": b, "index": i, "per_batch": perBatch}})
				}
			}
			mu.Unlock()
			if res.started > res.ended || (err != nil && res.canary == "") {
				// worker died: attribute to the last journalled case and confirm it alone
				atomic.AddInt64(&deaths, 1)
				i := res.lastIdx
				kind := deathKind(stderr)
				if i < 0 {
					run.Inconclusive("worker-died-before-first-case: " + kind)
					return
				}
				res2, stderr2, _ := spawnWorker(self, seed, b, perBatch, dir, i, race, 4194304)
				confirmed := res2.started > res2.ended
				kind2 := deathKind(stderr2)
				if !confirmed {
					run.Inconclusive(fmt.Sprintf("worker-death-not-reproduced-alone: %s / %s", kind, classRoot(res.classes[i])))
				} else {
					if kind2 == "hang-watchdog" {
						atomic.AddInt64(&hangs, 1)
					}
					run.Eval(1)
					run.Violate(common.Violation{Clause: "process-keeps-running", Signature: deathSig(kind2, classRoot(res.classes[i]), topRepoFrame(stderr2)),
						Detail:  fmt.Sprintf("worker process died (%s) on input %s at stage %s; reproduced alone; first lines: %s", kind2, res.classes[i], res.stages[i], firstLines(stderr2, 4)),
						Witness: map[string]interface{}{"kind": "hostile-input", "class": res.classes[i], "stage": res.stages[i], "bytes_hex_prefix": res.hexes[i], "seed": seed, "batch": b, "index": i, "per_batch": perBatch}})
				}
				from = i + 1 // resume the batch after the fatal case
				continue
			}
			if res.canary != "CANARY-ALIVE" {
				run.Violate(common.Violation{Clause: "other-connections-unaffected", Signature: "canary-dead-at-end-of-batch", Detail: res.canary})
			}
			return
		}
	})
	if !race {
		c15DirectHeaders(run, seed, tier)
	}
	run.Extra("worker_processes", batches)
	run.Extra("worker_deaths", deaths)
	run.Extra("cases_by_class_and_stage", classSeen)
	run.Extra("race_detector_pass", race)
	return run.Finish()
}

func firstLines(s string, n int) string {
	ls := strings.Split(s, "\n")
	var out []string
	for _, l := range ls {
		if strings.TrimSpace(l) == "" {
			continue
		}
		out = append(out, strings.TrimSpace(l))
		if len(out) >= n {
			break
		}
	}
	return strings.Join(out, " | ")
}

// deathSig: an allocation sized by a declared length is identified by the input class alone (the
// frame and the runtime's message vary with the declared size and the memory budget); any other
// death keeps its top repository/dependency frame in the signature.
func deathSig(kind, class, frame string) string {
	if kind == "allocation-sized-by-declared-length" {
		return "process-death/" + kind + "/" + class
	}
	return "process-death/" + kind + "/" + class + "/" + frame
}

// c15DirectHeaders feeds hostile `headers` payloads straight into the exported
// Repository.HandleHeadersMessage (the header repository's own entry point for a peer's headers
// message): the answer must be an error or nil, never a panic, and a refused payload must leave
// the tip where it was.
func c15DirectHeaders(run *common.Run, seed int64, tier string) {
	ctx := common.QuietCtx()
	n := 3000
	if tier == "thorough" {
		n = 60000
	}
	var panics, errs, oks int64
	common.ParallelFor(16, 16, func(part int) {
		rng := common.Rng(seed, int64(159000+part))
		repo := newC15Repo()
		for i := 0; i < n/16; i++ {
			cg := &chainGen{prev: *MainGenesisHash(), ts: 1231006505, rng: rng}
			hs := cg.next(1 + rng.Intn(4))
			class := ""
			var pl []byte
			switch rng.Intn(7) {
			case 0:
				pl = make([]byte, rng.Intn(300))
				rng.Read(pl)
				class = "random"
			case 1:
				pl = HeadersPayload(hs)
				pl = pl[:rng.Intn(len(pl)+1)]
				class = "truncated"
			case 2:
				c := hugeCounts[rng.Intn(len(hugeCounts))]
				pl = append(varint(c), HeadersPayload(hs)[1:]...)
				class = "count-huge"
			case 3:
				for _, h := range hs {
					h.Bits = uint32(rng.Intn(256))<<24 | mantissasC15[rng.Intn(len(mantissasC15))]
					h.Timestamp = []uint32{0, 1, 0x7fffffff, 0xffffffff}[rng.Intn(4)]
				}
				pl = HeadersPayload(hs)
				class = "hostile-bits"
			case 4:
				pl = HeadersPayload(hs)
				pl[len(pl)-1] = byte(1 + rng.Intn(255)) // non-zero tx count after the last header
				class = "tx-count-nonzero"
			case 5:
				pl = HeadersPayload(hs)
				pl[1+rng.Intn(len(pl)-1)] ^= byte(1 + rng.Intn(255))
				class = "bit-flip"
			default:
				pl = append(varint(uint64(len(hs))), bytes.Repeat([]byte{0xff}, 81*len(hs))...)
				class = "all-ff"
			}
			before := repo.Height()
			var err error
			hdrMsg := &wire.MessageHeader{Length: uint64(len(pl))}
			pan := hdr.Safe(func() { err = repo.HandleHeadersMessage(ctx, hdrMsg, bytes.NewReader(pl)) })
			run.Eval(1)
			run.DistinctStr("direct-headers/" + class + "/" + fmt.Sprint(err == nil))
			w := map[string]interface{}{"kind": "headers-payload", "class": class, "payload_hex": hex.EncodeToString(head(pl, 400)), "seed": seed}
			switch {
			case pan != "":
				atomic.AddInt64(&panics, 1)
				run.Violate(common.Violation{Clause: "process-keeps-running", Signature: "panic-in-HandleHeadersMessage/" + class, Detail: pan, Witness: w})
			case err != nil:
				atomic.AddInt64(&errs, 1)
			default:
				atomic.AddInt64(&oks, 1)
			}
			if h := repo.Height(); h != before {
				// only a header the acceptance rule admits may move the tip (see runC15Case)
				hd, e2 := repo.Header(ctx, h)
				if e2 != nil || hd == nil {
					run.Violate(common.Violation{Clause: "repositories-unaffected", Signature: "repository-changed/direct-headers/" + class, Witness: w})
					continue
				}
				target, neg, over := hdr.RefCompactTarget(hd.Bits)
				hv := new(big.Int).SetBytes(reverse32(hd.BlockHash()[:]))
				if neg || over || target.Sign() == 0 || hv.Cmp(target) > 0 {
					run.Violate(common.Violation{Clause: "repositories-unaffected", Signature: "repository-changed/direct-headers/" + class,
						Detail: fmt.Sprintf("height %d -> %d, bits %08x", before, h, hd.Bits), Witness: w})
				}
				repo = newC15Repo()
			}
		}
	})
	run.Extra("direct_headers_payloads", map[string]int64{"returned_error": errs, "returned_nil": oks, "panicked": panics})
}
