package conc

import (
	"context"
	"fmt"
	"runtime"
	"strings"
	"sync/atomic"
	"time"

	"verifharness/common"
	"verifharness/hdr"
	"verifharness/netx"

	bitcoin_reader "github.com/tokenized/bitcoin_reader"
	"github.com/tokenized/bitcoin_reader/headers"
	"github.com/tokenized/pkg/merkle_proof"
	"github.com/tokenized/pkg/wire"
)

// blockCase is one delivery of a (possibly corrupted) block to a downloader.
type blockCase struct {
	N          int
	Relevant   string // none all one random
	Corruption string
	Pos        int
	Fault      string // "" process coinbase confirm store cancel stop
	FaultAt    int
}

func (c blockCase) String() string {
	return fmt.Sprintf("n=%d rel=%s corruption=%s@%d fault=%s@%d", c.N, c.Relevant, c.Corruption, c.Pos, c.Fault, c.FaultAt)
}

type c04obs struct {
	cases, intact, verifiedDespiteCorruption, confirms, proofs, e2e int64
}

// rootWithDups recomputes a merkle root from a proof in the dependency's encoding
// (DuplicatedIndexes name the layers at which the node is paired with itself).
func rootWithDups(p *merkle_proof.MerkleProof) Hash {
	h := *p.TxID
	idx := p.Index
	path := p.Path
	dups := p.DuplicatedIndexes
	layer := 1
	for {
		var other Hash
		if len(dups) > 0 && dups[0] == layer {
			other = h
			dups = dups[1:]
		} else {
			if len(path) == 0 {
				break
			}
			other = path[0]
			path = path[1:]
		}
		if idx%2 == 0 {
			h = hdr.RefVerifyPath(h, 0, []Hash{other})
		} else {
			h = hdr.RefVerifyPath(h, 1, []Hash{other})
		}
		idx /= 2
		layer++
	}
	return h
}

// deliver runs one case against a fresh BlockDownloader and judges the recorded calls.
func deliverBlock(ctx context.Context, run *common.Run, obs *c04obs, seed int64, c blockCase) {
	rng := common.Rng(seed, int64(c.N*1000003+c.Pos*7919+c.FaultAt*31+len(c.Corruption)+len(c.Fault)*131+len(c.Relevant)))
	var prev Hash
	rng.Read(prev[:])
	blk := MkBlock(rng, prev, c.N)
	other := MkBlock(rng, prev, 2)
	requested := blk.Hash
	header := blk.Header
	announced := uint64(c.N)
	txs := append([]*wire.MsgTx(nil), blk.Txs...)
	cut := -1 // stream cut after this many txs (channel closed early)
	switch c.Corruption {
	case "":
	case "drop":
		txs = append(txs[:c.Pos:c.Pos], txs[c.Pos+1:]...)
		announced = uint64(len(txs)) // consistently announced: only the merkle root can tell
	case "drop-count-kept":
		txs = append(txs[:c.Pos:c.Pos], txs[c.Pos+1:]...)
	case "add":
		extra := netx.MkTx(rng, 10)
		txs = append(txs[:c.Pos:c.Pos], append([]*wire.MsgTx{extra}, txs[c.Pos:]...)...)
		announced = uint64(len(txs))
	case "swap":
		if c.Pos+1 < len(txs) {
			txs[c.Pos], txs[c.Pos+1] = txs[c.Pos+1], txs[c.Pos]
		}
	case "alter":
		txs[c.Pos] = netx.MkTx(rng, 12)
	case "count+1":
		announced++
	case "count-1":
		announced--
	case "cut":
		cut = c.Pos
	case "other-header":
		header = other.Header
	case "other-block-complete":
		// a complete, self-consistent block that is not the requested one
		header = other.Header
		txs = append([]*wire.MsgTx(nil), other.Txs...)
		announced = uint64(len(txs))
	case "header-wrong-root-requested":
		// the requested block's header does not commit to the delivered transactions
		h := blk.Header.Copy()
		h.MerkleRoot[3] ^= 0x40
		header = &h
		requested = *h.BlockHash()
	case "duplicate-last":
		// [a,b,c] -> [a,b,c,c] with the count to match: same merkle root by construction
		if len(txs)%2 == 1 {
			txs = append(txs, txs[len(txs)-1])
			announced = uint64(len(txs))
		}
	}

	proc := netx.NewRecProcessor()
	relSet := map[Hash]bool{}
	switch c.Relevant {
	case "all":
		for _, id := range blk.TxIDs {
			relSet[id] = true
		}
		for _, id := range other.TxIDs {
			relSet[id] = true
		}
	case "one":
		relSet[blk.TxIDs[c.Pos%len(blk.TxIDs)]] = true
	case "random":
		for _, id := range blk.TxIDs {
			if rng.Intn(2) == 0 {
				relSet[id] = true
			}
		}
	}
	proc.Relevant = func(id Hash) bool { return relSet[id] }
	btm := NewRecBlockTxManager()
	bd := bitcoin_reader.NewBlockDownloader(proc, btm, requested, 1000)
	node := NewFakeNode()
	bd.SetCanceller(node.ID(), node)
	switch c.Fault {
	case "process", "coinbase", "confirm":
		proc.FailKind, proc.FailAt = c.Fault, c.FaultAt
	case "store":
		btm.FailOn[requested] = true
	case "cancel", "stop":
		var n int32
		proc.OnCall = func(kind string) {
			if kind == "process" && int(atomic.AddInt32(&n, 1)) == c.FaultAt {
				if c.Fault == "cancel" {
					bd.Cancel(ctx)
				} else {
					bd.Stop(ctx)
				}
			}
		}
	}

	interrupt := make(chan interface{})
	runDone := make(chan error, 1)
	go func() { runDone <- bd.Run(ctx, interrupt) }()

	ch := make(chan *wire.MsgTx, 1000)
	feedStop := make(chan struct{})
	node.BeginHandler(func() { close(feedStop) })
	var delivered int64
	go func() {
		defer close(ch)
		for i, tx := range txs {
			if cut >= 0 && i >= cut {
				return
			}
			select {
			case ch <- tx:
				atomic.AddInt64(&delivered, 1)
			case <-feedStop:
				return
			}
		}
		if c.Fault == "cancel-before-close" || c.Fault == "stop-before-close" {
			// every announced transaction has been handed over; the manager cancels (or the peer
			// drops) after the handler consumed the last one and before the stream ends
			for i := 0; i < 5000 && proc.CountKind("process")+proc.CountKind("process-failed") < len(txs); i++ {
				time.Sleep(time.Millisecond)
			}
			if c.Fault == "cancel-before-close" {
				bd.Cancel(ctx)
			} else {
				bd.Stop(ctx)
			}
		}
	}()
	var herr error
	pan := safe(func() { herr = bd.HandleBlock(ctx, header, announced, ch) })
	node.EndHandler()
	var completion error
	select {
	case completion = <-runDone:
	case <-time.After(20 * time.Second):
		run.Inconclusive("downloader-run-did-not-return")
		close(interrupt)
		return
	}
	atomic.AddInt64(&obs.cases, 1)
	run.Eval(1)
	run.DistinctStr(c.String())
	w := map[string]interface{}{"kind": "block-delivery", "case": c.String(), "seed": seed, "txs_delivered": atomic.LoadInt64(&delivered), "handler_error": fmt.Sprint(herr)}
	if c.Fault != "" || c.Corruption != "" {
		run.Sample(w)
	}
	viol := func(clause, sig, detail string) {
		run.Violate(common.Violation{Clause: clause, Signature: sig, Detail: c.String() + ": " + detail, Witness: w})
	}
	if pan != "" {
		viol("never-crashes", "handleblock-panics/"+c.Corruption+"/"+c.Fault, pan)
		return
	}

	// what was actually received, and whether the three verification conditions hold for it
	ev := proc.Snapshot()
	var received []Hash
	var relevantSeen []Hash
	for _, e := range ev {
		if e.Kind == "process" {
			received = append(received, e.TxID)
			if e.Result {
				relevantSeen = append(relevantSeen, e.TxID)
			}
		}
	}
	hdrOK := *header.BlockHash() == requested
	countOK := uint64(len(received)) == announced && (cut < 0 || cut >= len(txs))
	rootOK := len(received) > 0 && hdr.RefMerkleRoot(received) == header.MerkleRoot
	verified := hdrOK && countOK && rootOK

	var coinbase, confirms []netx.ProcEvent
	firstEffect := -1
	for i, e := range ev {
		switch e.Kind {
		case "coinbase":
			coinbase = append(coinbase, e)
		case "confirm":
			confirms = append(confirms, e)
		default:
			continue
		}
		if firstEffect == -1 {
			firstEffect = i
		}
	}
	appends := btm.AppendCount(requested)
	anyEffect := len(coinbase) > 0 || len(confirms) > 0 || appends > 0
	what := fmt.Sprintf("header-ok=%v count-ok=%v root-ok=%v", hdrOK, countOK, rootOK)
	if anyEffect && !verified {
		viol("confirmations-only-for-fully-verified-blocks", fmt.Sprintf("effects-without-verification/hdr=%v/count=%v/root=%v/%s/%s", hdrOK, countOK, rootOK, c.Corruption, c.Fault),
			fmt.Sprintf("%d coinbase, %d confirm, %d append calls although %s", len(coinbase), len(confirms), appends, what))
		return
	}
	if verified && c.Corruption != "" {
		atomic.AddInt64(&obs.verifiedDespiteCorruption, 1)
		run.Count("corruption-that-still-satisfies-all-three-conditions/"+c.Corruption, 1)
	}
	if anyEffect {
		// order and content of the effects
		if len(coinbase) != 1 || coinbase[0].Block != requested || coinbase[0].TxID != received[0] {
			viol("coinbase-processed-once-for-the-block", "coinbase-call-wrong/"+c.Fault, fmt.Sprintf("%d coinbase calls", len(coinbase)))
			return
		}
		for i, e := range ev {
			if e.Kind == "process" && i > firstEffect {
				viol("verification-before-effects", "tx-processed-after-first-effect", "")
				return
			}
		}
		// confirms are a prefix of R (all of R unless a confirm was made to fail), each once, in order
		if len(confirms) > len(relevantSeen) {
			viol("confirmations-cover-exactly-the-relevant-transactions", "too-many-confirms", fmt.Sprintf("%d confirms, %d relevant", len(confirms), len(relevantSeen)))
			return
		}
		for i, cf := range confirms {
			if cf.TxID != relevantSeen[i] {
				viol("confirmations-cover-exactly-the-relevant-transactions", "confirm-order-or-identity-wrong", fmt.Sprintf("confirm #%d is for %s, relevant #%d is %s", i, cf.TxID, i, relevantSeen[i]))
				return
			}
			atomic.AddInt64(&obs.confirms, 1)
			p := cf.Proof
			if p == nil || p.TxID == nil || *p.TxID != cf.TxID || p.BlockHeader == nil || *p.BlockHeader.BlockHash() != requested {
				viol("each-confirmation-carries-a-valid-proof", "proof-not-for-this-txid-or-header", fmt.Sprintf("confirm %s", cf.TxID))
				return
			}
			if err := p.Verify(); err != nil {
				viol("each-confirmation-carries-a-valid-proof", "proof-does-not-verify/"+c.Corruption, err.Error())
				return
			}
			pos := -1
			for j, id := range received {
				if id == cf.TxID {
					pos = j
					break
				}
			}
			if p.Index != pos || rootWithDups(p) != header.MerkleRoot || cf.Height != 1000 {
				viol("each-confirmation-carries-a-valid-proof", "proof-index-or-path-wrong", fmt.Sprintf("index %d want %d", p.Index, pos))
				return
			}
			atomic.AddInt64(&obs.proofs, 1)
		}
		confirmFailed := c.Fault == "confirm" && proc.CountKind("confirm-failed") > 0
		coinbaseFailed := c.Fault == "coinbase" && proc.CountKind("coinbase-failed") > 0
		_ = coinbaseFailed
		if appends > 0 {
			if appends != 1 || len(confirms) != len(relevantSeen) {
				viol("relevant-txids-recorded-once-after-confirmations", "append-before-all-confirms-or-twice", fmt.Sprintf("%d appends, %d/%d confirms", appends, len(confirms), len(relevantSeen)))
				return
			}
			got := btm.Blocks[requested]
			if len(got) != len(relevantSeen) {
				viol("relevant-txids-recorded-once-after-confirmations", "appended-txids-differ", "")
				return
			}
			for i := range got {
				if got[i] != relevantSeen[i] {
					viol("relevant-txids-recorded-once-after-confirmations", "appended-txids-differ", "")
					return
				}
			}
		} else if !confirmFailed && c.Fault != "store" && !strings.HasPrefix(c.Fault, "cancel") && !strings.HasPrefix(c.Fault, "stop") && len(confirms) == len(relevantSeen) && herr == nil {
			viol("relevant-txids-recorded-once-after-confirmations", "success-without-append", "")
			return
		}
	}
	// effects are all-or-nothing: coinbase / confirmations / the txid record belong together, so a
	// cancellation (or peer drop) either comes in time to prevent all of them or none
	if (strings.HasPrefix(c.Fault, "cancel") || strings.HasPrefix(c.Fault, "stop")) && c.Corruption == "" && (len(coinbase) > 0 || len(confirms) > 0) && appends != 1 {
		viol("confirmed-coinbase-processed-and-txids-recorded-together", "effects-without-txid-record/"+c.Fault,
			fmt.Sprintf("%d coinbase and %d confirm calls were made but the block's txids were recorded %d times (completion %v)", len(coinbase), len(confirms), appends, completion))
		return
	}
	fullSuccess := verified && appends == 1
	if c.Corruption == "" && c.Fault == "" {
		atomic.AddInt64(&obs.intact, 1)
		if !fullSuccess || herr != nil || completion != nil {
			viol("intact-block-is-confirmed", "intact-block-not-completed", fmt.Sprintf("handler err=%v completion=%v appends=%d", herr, completion, appends))
			return
		}
	}
	if !fullSuccess && completion == nil && !strings.HasPrefix(c.Fault, "cancel") && !strings.HasPrefix(c.Fault, "stop") {
		viol("completion-value-reports-failure", "nil-completion-without-full-processing/"+c.Corruption+"/"+c.Fault,
			fmt.Sprintf("Run returned nil although the block was not fully processed (%s, appends=%d)", what, appends))
	}
	if fullSuccess && completion != nil && c.Fault == "" {
		viol("completion-value-reports-failure", "error-completion-after-full-processing", fmt.Sprintf("%v", completion))
	}
}

func c04Cases(tier string, seed int64) []blockCase {
	var out []blockCase
	rng := common.Rng(seed, 404)
	rels := []string{"none", "all", "one", "random"}
	maxExh := 8
	if tier == "thorough" {
		maxExh = 12
	}
	for n := 1; n <= maxExh; n++ {
		for _, rel := range rels {
			out = append(out, blockCase{N: n, Relevant: rel})
			for pos := 0; pos < n; pos++ {
				for _, cor := range []string{"drop", "drop-count-kept", "add", "swap", "alter", "cut"} {
					if cor == "drop" && n == 1 {
						continue
					}
					out = append(out, blockCase{N: n, Relevant: rel, Corruption: cor, Pos: pos})
				}
				for _, f := range []string{"process", "cancel", "stop"} {
					out = append(out, blockCase{N: n, Relevant: rel, Fault: f, FaultAt: pos + 1, Pos: pos})
				}
			}
			out = append(out, blockCase{N: n, Relevant: rel, Corruption: "add", Pos: n})
			for _, cor := range []string{"count+1", "count-1", "other-header", "other-block-complete", "header-wrong-root-requested", "duplicate-last"} {
				out = append(out, blockCase{N: n, Relevant: rel, Corruption: cor})
			}
			out = append(out, blockCase{N: n, Relevant: rel, Fault: "coinbase", FaultAt: 1})
			out = append(out, blockCase{N: n, Relevant: rel, Fault: "cancel-before-close"})
			out = append(out, blockCase{N: n, Relevant: rel, Fault: "stop-before-close"})
			out = append(out, blockCase{N: n, Relevant: rel, Fault: "store"})
			for k := 1; k <= n; k++ {
				out = append(out, blockCase{N: n, Relevant: rel, Fault: "confirm", FaultAt: k})
			}
		}
	}
	// larger blocks, sampled corruption
	sizes := []int{13, 16, 17, 31, 32, 33, 63, 64, 65, 70}
	if tier == "thorough" {
		sizes = append(sizes, 127, 128, 129, 255, 256, 1000)
		for n := 13; n <= 70; n++ {
			sizes = append(sizes, n)
		}
	}
	for _, n := range sizes {
		for _, rel := range rels {
			out = append(out, blockCase{N: n, Relevant: rel})
			for j := 0; j < 6; j++ {
				cor := []string{"drop", "drop-count-kept", "add", "swap", "alter", "cut", "count+1", "count-1", "other-header", "duplicate-last", "other-block-complete"}[rng.Intn(11)]
				out = append(out, blockCase{N: n, Relevant: rel, Corruption: cor, Pos: rng.Intn(n)})
				f := []string{"process", "cancel", "stop", "confirm", "store", "coinbase", "cancel-before-close", "stop-before-close"}[rng.Intn(8)]
				out = append(out, blockCase{N: n, Relevant: rel, Fault: f, FaultAt: 1 + rng.Intn(n), Pos: rng.Intn(n)})
			}
		}
	}
	return out
}

// c04EndToEnd sends blocks through a real node over loopback into a real downloader.
func c04EndToEnd(ctx context.Context, run *common.Run, obs *c04obs, idx int) {
	if run.Saturated() {
		return
	}
	rng := common.Rng(run.Seed, int64(410000+idx))
	repo := headers.NewRepository(headers.DefaultConfig(), common.NewMemStore())
	repo.InitializeWithGenesis()
	repo.DisableDifficulty()
	s, err := netx.StartSession(ctx, netx.SessionOpts{Repo: repo})
	if err != nil {
		run.Inconclusive("e2e-session-start")
		return
	}
	defer s.Stop(20 * time.Second)
	if err := s.Verify(15 * time.Second); err != nil {
		run.Inconclusive("e2e-verify")
		return
	}
	n := 1 + rng.Intn(20)
	blk := MkBlock(rng, *netx.MainGenesisHash(), n)
	mode := []string{"intact", "intact-ext", "alter", "cut-close", "count+1", "other-block", "drop-count-kept"}[idx%7]
	proc := netx.NewRecProcessor()
	proc.Relevant = func(id Hash) bool { return id[0]&1 == 0 }
	btm := NewRecBlockTxManager()
	bd := bitcoin_reader.NewBlockDownloader(proc, btm, blk.Hash, 1)
	// same order as BlockManager.requestBlock: request, set canceller, then start Run
	if err := s.Node.RequestBlock(ctx, blk.Hash, bd.HandleBlock, bd.Stop); err != nil {
		run.Inconclusive("e2e-request-block")
		return
	}
	bd.SetCanceller(s.Node.ID(), s.Node)
	interrupt := make(chan interface{})
	runDone := make(chan error, 1)
	go func() { runDone <- bd.Run(ctx, interrupt) }()
	if i, _ := s.Peer.WaitCmd(0, "getdata", 10*time.Second); i < 0 {
		run.Inconclusive("e2e-no-getdata")
		return
	}
	txs := append([]*wire.MsgTx(nil), blk.Txs...)
	header := blk.Header
	announced := uint64(n)
	closeAfter := false
	switch mode {
	case "alter":
		txs[rng.Intn(n)] = netx.MkTx(rng, 9)
	case "count+1":
		announced++
		closeAfter = true
	case "other-block":
		o := MkBlock(rng, *netx.MainGenesisHash(), n)
		header, txs = o.Header, o.Txs
	case "drop-count-kept":
		if n > 1 {
			txs = txs[:n-1]
		}
		closeAfter = true
	case "cut-close":
		closeAfter = true
	}
	payload := netx.BlockPayload(header, announced, txs)
	if mode == "cut-close" && len(payload) > 90 {
		payload = payload[:len(payload)-1-rng.Intn(len(payload)-85)]
		f := netx.Frame("block", netx.BlockPayload(header, announced, txs))
		s.Peer.SendRaw(f[:24+len(payload)])
	} else if mode == "intact-ext" {
		s.Peer.SendRaw(netx.ExtFrame("block", payload))
	} else if closeAfter {
		// declared frame longer than what is sent, then hang up
		f := netx.Frame("block", append(payload, make([]byte, 50)...))
		s.Peer.SendRaw(f[:24+len(payload)])
	} else {
		s.Peer.SendRaw(netx.Frame("block", payload))
	}
	if closeAfter {
		time.Sleep(20 * time.Millisecond)
		s.Peer.CloseConn()
	}
	var completion error
	got := false
	select {
	case completion = <-runDone:
		got = true
	case <-time.After(map[bool]time.Duration{true: 2 * time.Second, false: 30 * time.Second}[mode == "other-block"]):
	}
	atomic.AddInt64(&obs.e2e, 1)
	run.Eval(1)
	run.DistinctStr(fmt.Sprintf("e2e/%s/%d", mode, n))
	w := map[string]interface{}{"kind": "block-end-to-end", "mode": mode, "txs": n, "case": idx, "seed": run.Seed}
	if idx < 2 {
		run.Sample(w)
	}
	if !got {
		if mode == "other-block" {
			// the node ignores a block it did not ask for; the request stays pending (manager-level timeout)
			close(interrupt)
			<-runDone
		} else {
			run.Violate(common.Violation{Clause: "request-terminates", Signature: "e2e-downloader-run-does-not-return/" + mode, Witness: w})
			close(interrupt)
			return
		}
	}
	effects := proc.CountKind("coinbase") + proc.CountKind("confirm") + btm.AppendCount(blk.Hash)
	intact := mode == "intact" || mode == "intact-ext"
	if intact {
		nrel := 0
		for _, id := range blk.TxIDs {
			if id[0]&1 == 0 {
				nrel++
			}
		}
		if completion != nil || proc.CountKind("coinbase") != 1 || proc.CountKind("confirm") != nrel || btm.AppendCount(blk.Hash) != 1 {
			run.Violate(common.Violation{Clause: "intact-block-is-confirmed", Signature: "e2e-intact-block-not-completed/" + mode,
				Detail: fmt.Sprintf("completion=%v coinbase=%d confirm=%d/%d append=%d", completion, proc.CountKind("coinbase"), proc.CountKind("confirm"), nrel, btm.AppendCount(blk.Hash)), Witness: w})
		}
		for _, e := range proc.Snapshot() {
			if e.Kind == "confirm" && (e.Proof == nil || e.Proof.Verify() != nil || rootWithDups(e.Proof) != blk.Header.MerkleRoot) {
				run.Violate(common.Violation{Clause: "each-confirmation-carries-a-valid-proof", Signature: "e2e-proof-invalid", Witness: w})
			}
		}
	} else if effects != 0 && !(mode == "drop-count-kept" && n == 1) {
		run.Violate(common.Violation{Clause: "confirmations-only-for-fully-verified-blocks", Signature: "e2e-effects-without-verification/" + mode,
			Detail: fmt.Sprintf("%d effect calls for a %s delivery", effects, mode), Witness: w})
	}
}

func RunC04(tier string, seed int64) int {
	ctx := common.QuietCtx()
	run := common.NewRun("C04", tier, seed, "fault_enumeration")
	run.Rule = "BlockDownloader.HandleBlock driven directly (tx channel fed as the node's handleBlock does, real Run goroutine, fake canceller with the node's contract): for block sizes 1..8 (thorough 1..12) every single-point corruption (drop / drop with count kept / add / swap / alter at every position, count +-1, stream cut at every position, other header, requested header not committing to the txs, duplicate-last malleation) and every fault point (processor error at every ProcessTx, coinbase error, every ConfirmTx, store error, Cancel and Stop at every tx) x relevance {none, all, one, random}; sampled corruptions for sizes up to 70 (thorough 1000); plus blocks sent through a real BitcoinNode over loopback. distinct = distinct case descriptors"
	run.Assumptions = []string{"the duplicate-last-transaction malleation ([a,b,c] vs [a,b,c,c] with count 4) satisfies all three stated conditions and is recorded as observed behaviour",
		"a Cancel/Stop that lands after verification leaves a fully verified block confirmed; only the all-three-conditions implication is enforced for those cases"}
	cases := c04Cases(tier, seed)
	obs := &c04obs{}
	common.QuietFirst(len(cases), 150, runtime.NumCPU(), func(i int) { deliverBlock(ctx, run, obs, seed, cases[i]) })
	ne2e := 70
	if tier == "thorough" {
		ne2e = 2100
	}
	common.ParallelFor(ne2e, 16, func(i int) { c04EndToEnd(ctx, run, obs, i) })
	run.SetExhaustive(false)
	run.Extra("observed", map[string]int64{"deliveries": obs.cases, "intact_deliveries_confirmed": obs.intact,
		"corrupted_deliveries_that_still_satisfied_all_three_conditions": obs.verifiedDespiteCorruption,
		"confirm_calls_checked": obs.confirms, "proofs_verified": obs.proofs, "end_to_end_deliveries": obs.e2e})
	run.Extra("single_point_enumeration", "exhaustive for block sizes up to the stated bound, sampled above")
	return run.Finish()
}
