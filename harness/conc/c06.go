package conc

import (
	"context"
	"fmt"
	"math/rand"
	"runtime"
	"sort"
	"strings"
	"sync"
	"sync/atomic"
	"time"

	"verifharness/common"
	"verifharness/netx"

	"github.com/anishathalye/porcupine"
	"github.com/google/uuid"
	bitcoin_reader "github.com/tokenized/bitcoin_reader"
	"github.com/tokenized/bitcoin_reader/headers"
	"github.com/tokenized/pkg/wire"
)

type txOp struct {
	Kind   string // announce deliver poll
	Peer   int
	Tx     int // index into the tx universe (-1 for poll)
	Call   int64
	Ret    int64
	CallT  time.Time
	RetT   time.Time
	OK     bool  // announce result
	Listed []int // poll result (tx indexes)
}

// per-txid sequential specification for the no-expiry regime
type txIn struct {
	Kind string
	Peer int
}
type txOut struct {
	OK     bool
	Listed bool
}

var txModel = porcupine.Model{
	Init: func() interface{} { return [2]bool{false, false} }, // requested, received
	Step: func(state, input, output interface{}) (bool, interface{}) {
		st := state.([2]bool)
		in := input.(txIn)
		out := output.(txOut)
		switch in.Kind {
		case "announce":
			if st[1] {
				return !out.OK, st
			}
			if !st[0] {
				return out.OK, [2]bool{true, false}
			}
			return !out.OK, st
		case "deliver":
			return true, [2]bool{st[0] || true, true}
		case "poll":
			return !out.Listed, st // the request timeout cannot expire in this regime
		}
		return false, st
	},
	Equal: func(a, b interface{}) bool { return a.([2]bool) == b.([2]bool) },
}

type c06obs struct {
	histories, ops, linOK, linUnknown, grants, delivered, retryPolls, e2e int64
}

func c06History(ctx context.Context, run *common.Run, obs *c06obs, idx int) {
	if run.Saturated() {
		return
	}
	rng := common.Rng(run.Seed, int64(600000+idx))
	regimeShort := idx%2 == 1
	T := time.Hour
	if regimeShort {
		T = time.Duration(5+rng.Intn(25)) * time.Millisecond
	}
	tm := bitcoin_reader.NewTxManager(T)
	proc := netx.NewRecProcessor()
	proc.Relevant = func(id Hash) bool { return id[1]&1 == 0 }
	tm.SetTxProcessor(proc)
	tm.SetTxSaver(proc)
	runDone := make(chan error, 1)
	go func() { runDone <- tm.Run(ctx) }()
	npeers := 2 + rng.Intn(15)
	ntx := 1 + rng.Intn(40)
	if rng.Intn(3) == 0 {
		ntx = 1 + rng.Intn(3) // few keys, many threads
	}
	peers := make([]uuid.UUID, npeers)
	for i := range peers {
		peers[i] = uuid.New()
	}
	txs := make([]*wire.MsgTx, ntx)
	ids := make([]Hash, ntx)
	idIndex := map[Hash]int{}
	// an eighth of the short-regime histories keeps all txids in one of the manager's 256 shards
	// (same first byte) and uses small retry-poll limits: the limit is only looked at between shards
	sameShard := regimeShort && idx%8 == 3
	for i := range txs {
		txs[i] = netx.MkTx(rng, 10+rng.Intn(30))
		ids[i] = *txs[i].TxHash()
		for try := 0; sameShard && ids[i][0] != 0x42 && try < 20000; try++ {
			txs[i] = netx.MkTx(rng, 10+rng.Intn(30))
			ids[i] = *txs[i].TxHash()
		}
		idIndex[ids[i]] = i
	}
	var clock int64
	var mu sync.Mutex
	var ops []txOp
	interrupt := make(chan interface{})
	var wg sync.WaitGroup
	start := make(chan struct{})
	perPeer := 4 + rng.Intn(12)
	for p := 0; p < npeers; p++ {
		seed := rng.Int63()
		wg.Add(1)
		go func(p int) {
			defer wg.Done()
			r := rand.New(rand.NewSource(seed))
			<-start
			for i := 0; i < perPeer; i++ {
				op := txOp{Peer: p, Tx: r.Intn(ntx)}
				switch k := r.Intn(10); {
				case k < 5:
					op.Kind = "announce"
				case k < 8:
					op.Kind = "deliver"
				default:
					op.Kind = "poll"
					op.Tx = -1
				}
				if r.Intn(4) == 0 {
					widen(r)
				}
				op.Call = atomic.AddInt64(&clock, 1)
				op.CallT = time.Now()
				switch op.Kind {
				case "announce":
					op.OK, _ = tm.AddTxID(ctx, peers[p], ids[op.Tx])
				case "deliver":
					tm.AddTx(ctx, interrupt, peers[p], txs[op.Tx])
				case "poll":
					l, _ := tm.GetTxRequests(ctx, peers[p], 10000)
					for _, id := range l {
						if j, ok := idIndex[id]; ok {
							op.Listed = append(op.Listed, j)
						} else {
							op.Listed = append(op.Listed, -99)
						}
					}
				}
				op.RetT = time.Now()
				op.Ret = atomic.AddInt64(&clock, 1)
				mu.Lock()
				ops = append(ops, op)
				mu.Unlock()
			}
		}(p)
	}
	close(start)
	wg.Wait()
	atomic.AddInt64(&obs.histories, 1)
	atomic.AddInt64(&obs.ops, int64(len(ops)))
	run.Eval(1)
	wit := map[string]interface{}{"kind": "tx-manager-history", "case": idx, "seed": run.Seed, "peers": npeers, "txs": ntx,
		"request_timeout": T.String()}
	describe := func() []string {
		sort.Slice(ops, func(i, j int) bool { return ops[i].Call < ops[j].Call })
		var out []string
		for _, o := range ops {
			out = append(out, fmt.Sprintf("p%d [%d,%d] %s tx%d -> ok=%v listed=%v", o.Peer, o.Call, o.Ret, o.Kind, o.Tx, o.OK, o.Listed))
		}
		if len(out) > 120 {
			out = out[:120]
		}
		return out
	}
	viol := func(clause, sig, detail string) {
		wit["ops"] = describe()
		run.Violate(common.Violation{Clause: clause, Signature: sig, Detail: detail, Witness: wit})
	}

	// bounded retry (short regime, before stopping): every peer that announced an undelivered tx
	// and has not been asked yet gets it listed once the timeout has passed since the last grant
	deliveredSet := map[int]bool{}
	announcedBy := map[int]map[int]int{} // tx -> peer -> announcements
	grantsTo := map[int]map[int]int{}
	var lastGrantRet time.Time
	for _, o := range ops {
		switch o.Kind {
		case "deliver":
			deliveredSet[o.Tx] = true
		case "announce":
			if announcedBy[o.Tx] == nil {
				announcedBy[o.Tx] = map[int]int{}
			}
			announcedBy[o.Tx][o.Peer]++
			if o.OK {
				if grantsTo[o.Tx] == nil {
					grantsTo[o.Tx] = map[int]int{}
				}
				grantsTo[o.Tx][o.Peer]++
				if o.RetT.After(lastGrantRet) {
					lastGrantRet = o.RetT
				}
			}
		case "poll":
			for _, j := range o.Listed {
				if j < 0 {
					viol("requests-only-announced-transactions", "poll-lists-unknown-txid", "")
					return
				}
				if grantsTo[j] == nil {
					grantsTo[j] = map[int]int{}
				}
				grantsTo[j][o.Peer]++
				if o.RetT.After(lastGrantRet) {
					lastGrantRet = o.RetT
				}
			}
		}
	}
	if regimeShort {
		// which (peer, tx) are still owed a request: announced, undelivered, announcements not yet granted
		type owed struct{ p, t int }
		var owes []owed
		for t, m := range announcedBy {
			if deliveredSet[t] {
				continue
			}
			for p, n := range m {
				if grantsTo[t][p] < n && grantsTo[t][p] == 0 {
					owes = append(owes, owed{p, t})
				}
			}
		}
		sort.Slice(owes, func(i, j int) bool { return owes[i].p*1000+owes[i].t < owes[j].p*1000+owes[j].t })
		// poll peer by peer; each poll must list exactly the txs owed to that peer whose last grant is older than T
		byPeer := map[int][]int{}
		var order []int
		for _, o := range owes {
			if _, ok := byPeer[o.p]; !ok {
				order = append(order, o.p)
			}
			byPeer[o.p] = append(byPeer[o.p], o.t)
		}
		if len(order) > 4 {
			order = order[:4]
		}
		lastGrantOf := map[int]time.Time{}
		for _, p := range order {
			// wait until more than T has passed since the last grant of any tx owed to p
			for {
				latest := lastGrantRet
				for _, t := range byPeer[p] {
					if lastGrantOf[t].After(latest) {
						latest = lastGrantOf[t]
					}
				}
				if d := time.Since(latest); d > T+2*time.Millisecond {
					break
				}
				time.Sleep(T / 4)
			}
			pollMax := 10000
			if sameShard {
				pollMax = 1 + rng.Intn(3)
			}
			got := map[int]bool{}
			var ret time.Time
			for iter := 0; iter < 200; iter++ {
				// with a small limit the peer keeps polling; everything owed to it must come up
				// before a poll returns nothing
				l, _ := tm.GetTxRequests(ctx, peers[p], pollMax)
				ret = time.Now()
				atomic.AddInt64(&obs.retryPolls, 1)
				for _, id := range l {
					got[idIndex[id]] = true
				}
				if len(l) == 0 || !sameShard {
					break
				}
			}
			for _, t := range byPeer[p] {
				if !got[t] {
					viol("undelivered-transaction-becomes-requestable-from-other-announcers", "retry-not-offered-after-timeout",
						fmt.Sprintf("peer %d announced tx%d, it is undelivered and no request is outstanding for more than the timeout %v, but GetTxRequests did not list it", p, t, T))
					return
				}
				lastGrantOf[t] = ret
				if grantsTo[t] == nil {
					grantsTo[t] = map[int]int{}
				}
				grantsTo[t][p]++
			}
			for t := range got {
				if deliveredSet[t] {
					viol("never-requested-again-after-delivery", "retry-lists-delivered-tx", fmt.Sprintf("tx%d", t))
					return
				}
				// every listed tx has just been stamped as requested (also ones this peer was
				// owed from a second announcement)
				lastGrantOf[t] = ret
			}
		}
	}

	tm.Stop(ctx)
	select {
	case err := <-runDone:
		if err != nil {
			viol("run-completes", "txmanager-run-error", err.Error())
			return
		}
	case <-time.After(20 * time.Second):
		viol("run-completes", "txmanager-run-does-not-return", blockedState())
		return
	}

	// 1. exactly once
	processed := map[Hash]int{}
	saved := map[Hash]int{}
	for _, e := range proc.Snapshot() {
		switch e.Kind {
		case "process":
			processed[e.TxID]++
		case "save":
			saved[e.TxID]++
		}
	}
	for t := range txs {
		want := 0
		if deliveredSet[t] {
			want = 1
			atomic.AddInt64(&obs.delivered, 1)
		}
		if processed[ids[t]] != want {
			viol("handed-to-processor-exactly-once", fmt.Sprintf("processed-count/%s", cnt3(processed[ids[t]], want)),
				fmt.Sprintf("tx%d delivered by >=1 peer: %v, ProcessTx calls: %d", t, deliveredSet[t], processed[ids[t]]))
			return
		}
		wantSave := 0
		if want == 1 && ids[t][1]&1 == 0 {
			wantSave = 1
		}
		if saved[ids[t]] != wantSave {
			viol("saved-exactly-once-if-relevant", fmt.Sprintf("saved-count/%s", cnt3(saved[ids[t]], wantSave)), fmt.Sprintf("tx%d SaveTx calls %d want %d", t, saved[ids[t]], wantSave))
			return
		}
	}
	// 2. never after delivery
	firstDeliveredRet := map[int]int64{}
	for _, o := range ops {
		if o.Kind == "deliver" {
			if r, ok := firstDeliveredRet[o.Tx]; !ok || o.Ret < r {
				firstDeliveredRet[o.Tx] = o.Ret
			}
		}
	}
	for _, o := range ops {
		switch o.Kind {
		case "announce":
			if r, ok := firstDeliveredRet[o.Tx]; ok && o.Call > r && o.OK {
				viol("never-requested-again-after-delivery", "announce-granted-after-delivery", fmt.Sprintf("tx%d", o.Tx))
				return
			}
		case "poll":
			for _, j := range o.Listed {
				if r, ok := firstDeliveredRet[j]; ok && o.Call > r {
					viol("never-requested-again-after-delivery", "poll-lists-delivered-tx", fmt.Sprintf("tx%d", j))
					return
				}
			}
		}
	}
	// 3. grants only to announcers, at most one per announcement
	for t, m := range grantsTo {
		for p, g := range m {
			if g > announcedBy[t][p] {
				viol("requested-only-from-announcing-peers", "more-grants-than-announcements", fmt.Sprintf("tx%d peer %d: %d grants, %d announcements", t, p, g, announcedBy[t][p]))
				return
			}
			atomic.AddInt64(&obs.grants, int64(g))
		}
	}
	if !regimeShort {
		// per-txid linearizability against the sequential specification
		byTx := map[int][]porcupine.Operation{}
		for _, o := range ops {
			switch o.Kind {
			case "announce":
				byTx[o.Tx] = append(byTx[o.Tx], porcupine.Operation{ClientId: o.Peer, Input: txIn{"announce", o.Peer}, Call: o.Call, Output: txOut{OK: o.OK}, Return: o.Ret})
			case "deliver":
				byTx[o.Tx] = append(byTx[o.Tx], porcupine.Operation{ClientId: o.Peer, Input: txIn{"deliver", o.Peer}, Call: o.Call, Output: txOut{}, Return: o.Ret})
			case "poll":
				listed := map[int]bool{}
				for _, j := range o.Listed {
					listed[j] = true
				}
				for t := range txs {
					byTx[t] = append(byTx[t], porcupine.Operation{ClientId: o.Peer, Input: txIn{"poll", o.Peer}, Call: o.Call, Output: txOut{Listed: listed[t]}, Return: o.Ret})
				}
			}
		}
		for t, h := range byTx {
			res := porcupine.CheckOperationsTimeout(txModel, h, 20*time.Second)
			switch res {
			case porcupine.Ok:
				atomic.AddInt64(&obs.linOK, 1)
			case porcupine.Illegal:
				viol("requested-from-exactly-one-announcing-peer-while-outstanding", "per-txid-history-not-linearizable",
					fmt.Sprintf("tx%d: the recorded announce/deliver/poll results admit no sequential order (e.g. two announcers both told to request it)", t))
				return
			default:
				atomic.AddInt64(&obs.linUnknown, 1)
				run.Inconclusive("porcupine-timeout")
			}
		}
	} else {
		// two grants of one tx are at least the timeout apart (one-sided, load can only widen it)
		type g struct {
			call, ret time.Time
			p         int
		}
		gs := map[int][]g{}
		for _, o := range ops {
			if o.Kind == "announce" && o.OK {
				gs[o.Tx] = append(gs[o.Tx], g{o.CallT, o.RetT, o.Peer})
			}
			if o.Kind == "poll" {
				for _, j := range o.Listed {
					gs[j] = append(gs[j], g{o.CallT, o.RetT, o.Peer})
				}
			}
		}
		for t, l := range gs {
			for i := 0; i < len(l); i++ {
				for j := i + 1; j < len(l); j++ {
					d1 := l[j].ret.Sub(l[i].call)
					d2 := l[i].ret.Sub(l[j].call)
					if d1 < T && d2 < T {
						viol("requested-from-exactly-one-announcing-peer-while-outstanding", "two-requests-within-the-timeout",
							fmt.Sprintf("tx%d was granted to peer %d and peer %d within %v / %v of each other, request timeout %v", t, l[i].p, l[j].p, d1, d2, T))
						return
					}
				}
			}
		}
	}
	var shape []string
	for _, o := range ops {
		shape = append(shape, o.Kind[:1])
	}
	run.DistinctStr(fmt.Sprintf("%d/%d/%v/%s", npeers, ntx, regimeShort, strings.Join(shape, "")))
	if idx < 2 {
		wit["ops"] = describe()
		run.Sample(wit)
	}
}

func cnt3(got, want int) string { return fmt.Sprintf("got=%d/want=%d", min3(got), want) }
func min3(n int) int {
	if n > 2 {
		return 2
	}
	return n
}

// end-to-end: several real nodes share one TxManager; scripted peers announce and deliver the
// same transactions at the same time.
func c06EndToEnd(ctx context.Context, run *common.Run, obs *c06obs, idx int) {
	if run.Saturated() {
		return
	}
	rng := common.Rng(run.Seed, int64(650000+idx))
	n := 2 + rng.Intn(3)
	tm := bitcoin_reader.NewTxManager(time.Hour)
	proc := netx.NewRecProcessor()
	proc.Relevant = func(id Hash) bool { return true }
	tm.SetTxProcessor(proc)
	tm.SetTxSaver(proc)
	runDone := make(chan error, 1)
	go func() { runDone <- tm.Run(ctx) }()
	var sessions []*netx.Session
	for i := 0; i < n; i++ {
		repo := headers.NewRepository(headers.DefaultConfig(), common.NewMemStore())
		repo.InitializeWithGenesis()
		s, err := netx.StartSession(ctx, netx.SessionOpts{Repo: repo})
		if err != nil {
			run.Inconclusive("e2e-session")
			return
		}
		s.Node.SetTxManager(tm)
		sessions = append(sessions, s)
	}
	defer func() {
		for _, s := range sessions {
			s.Stop(20 * time.Second)
		}
	}()
	// SetTxManager must precede the handshake for the inv/tx handlers to be installed at accept
	for _, s := range sessions {
		if err := s.Verify(15 * time.Second); err != nil {
			run.Inconclusive("e2e-verify: " + err.Error())
			return
		}
	}
	ntx := 1 + rng.Intn(6)
	txs := make([]*wire.MsgTx, ntx)
	ids := make([]Hash, ntx)
	for i := range txs {
		txs[i] = netx.MkTx(rng, 20)
		ids[i] = *txs[i].TxHash()
	}
	// all peers announce everything at once
	var wg sync.WaitGroup
	for _, s := range sessions {
		s := s
		wg.Add(1)
		go func() {
			defer wg.Done()
			s.Peer.Send("inv", netx.InvPayload(1, ids))
		}()
	}
	wg.Wait()
	// barrier: every node has handled its inv
	for i, s := range sessions {
		if got, _ := s.PingPong(uint64(1000+i), 20*time.Second); !got {
			run.Inconclusive("e2e-no-pong")
			return
		}
	}
	atomic.AddInt64(&obs.e2e, 1)
	run.Eval(1)
	run.DistinctStr(fmt.Sprintf("e2e/%d/%d", n, ntx))
	wit := map[string]interface{}{"kind": "tx-end-to-end", "nodes": n, "txs": ntx, "case": idx, "seed": run.Seed}
	requestedFrom := map[Hash][]int{}
	for i, s := range sessions {
		for _, m := range s.Peer.Log() {
			if m.Cmd != "getdata" {
				continue
			}
			types, hs, _ := netx.ParseInv(m.Payload)
			for j, h := range hs {
				if types[j] == 1 {
					requestedFrom[h] = append(requestedFrom[h], i)
				}
			}
		}
	}
	for t, id := range ids {
		if len(requestedFrom[id]) != 1 {
			run.Violate(common.Violation{Clause: "requested-from-exactly-one-announcing-peer-while-outstanding", Signature: fmt.Sprintf("e2e-getdata-count/%d", min3(len(requestedFrom[id]))),
				Detail: fmt.Sprintf("tx%d announced by %d peers at once was requested from %d of them", t, n, len(requestedFrom[id])), Witness: wit})
			return
		}
	}
	// every peer delivers every tx at once (solicited and unsolicited)
	for _, s := range sessions {
		s := s
		wg.Add(1)
		go func() {
			defer wg.Done()
			for _, tx := range txs {
				s.Peer.Send("tx", netx.TxBytes(tx))
			}
		}()
	}
	wg.Wait()
	for i, s := range sessions {
		if got, _ := s.PingPong(uint64(2000+i), 20*time.Second); !got {
			run.Inconclusive("e2e-no-pong-2")
			return
		}
	}
	// announce again after delivery: nothing may be requested
	for _, s := range sessions {
		s.Peer.Send("inv", netx.InvPayload(1, ids))
	}
	for i, s := range sessions {
		s.PingPong(uint64(3000+i), 20*time.Second)
	}
	for i, s := range sessions {
		count := 0
		for _, m := range s.Peer.Log() {
			if m.Cmd == "getdata" {
				count++
			}
		}
		_ = i
		_ = count
	}
	total := 0
	for _, s := range sessions {
		for _, m := range s.Peer.Log() {
			if m.Cmd == "getdata" {
				_, hs, _ := netx.ParseInv(m.Payload)
				total += len(hs)
			}
		}
	}
	if total != ntx {
		run.Violate(common.Violation{Clause: "never-requested-again-after-delivery", Signature: "e2e-getdata-after-delivery",
			Detail: fmt.Sprintf("%d getdata entries in total for %d transactions", total, ntx), Witness: wit})
		return
	}
	for _, s := range sessions {
		s.Stop(20 * time.Second)
	}
	sessions = nil
	tm.Stop(ctx)
	select {
	case <-runDone:
	case <-time.After(20 * time.Second):
		run.Inconclusive("e2e-txmanager-run")
		return
	}
	counts := map[Hash]int{}
	for _, e := range proc.Snapshot() {
		if e.Kind == "process" {
			counts[e.TxID]++
		}
	}
	for t, id := range ids {
		if counts[id] != 1 {
			run.Violate(common.Violation{Clause: "handed-to-processor-exactly-once", Signature: fmt.Sprintf("e2e-processed-count/got=%d", min3(counts[id])),
				Detail: fmt.Sprintf("tx%d delivered by %d peers at once was processed %d times", t, n, counts[id]), Witness: wit})
			return
		}
	}
}

func RunC06(tier string, seed int64) int {
	ctx := common.QuietCtx()
	run := common.NewRun("C06", tier, seed, "exploration")
	run.Rule = "real TxManager with its Run goroutine and a recording processor/saver; 2-16 peer goroutines x 1-40 txids (a third of the histories with 1-3 txids) perform seeded mixes of AddTxID / AddTx / GetTxRequests with scheduling perturbations; every call is recorded at the client boundary with a logical clock and monotonic timestamps. Two regimes: request timeout 1 h (per-txid linearizability against a sequential specification, porcupine) and 5-30 ms (one-sided inequality: two grants of one txid are >= the timeout apart; bounded retry polls at quiescence). Conservation after Stop: ProcessTx multiset == delivered set, SaveTx == relevant subset. End-to-end slice: 2-4 real BitcoinNodes on loopback share one TxManager. All under the race detector. distinct = (peers, txs, regime, op-kind sequence)"
	run.Assumptions = []string{"timing inequalities are one-sided: scheduling delay can only make the measured gap between two grants larger, so load cannot produce a false alarm",
		"AddTx is never called after Stop (the harness joins all peers first), as in the program where Stop happens at shutdown"}
	n, ne := 1500, 40
	if tier == "thorough" {
		n, ne = 120000, 1500
	}
	obs := &c06obs{}
	common.QuietFirst(n, 40, runtime.NumCPU(), func(i int) { c06History(ctx, run, obs, i) })
	common.ParallelFor(ne, 8, func(i int) { c06EndToEnd(ctx, run, obs, i) })
	nb := 2
	if tier == "thorough" {
		nb = 6
	}
	common.ParallelFor(nb, nb, func(i int) { c06Backlog(ctx, run, obs, i) })
	run.Extra("observed", map[string]int64{"histories": obs.histories, "operations_recorded": obs.ops, "per_txid_histories_linearizable": obs.linOK,
		"porcupine_timeouts": obs.linUnknown, "grants_observed": obs.grants, "txs_delivered": obs.delivered, "bounded_retry_polls": obs.retryPolls, "end_to_end_runs": obs.e2e})
	return run.Finish()
}

// c06Backlog: a delivered transaction must reach the processor exactly once also when the
// processor is far behind: the hand-over channel (capacity 1000) is full and stays full for longer
// than the manager's own 3-second "waiting" warning while one more transaction is delivered.
// The verdict does not depend on timing: after the processor is released and the delivering call
// has returned, the manager is stopped (which closes the channel), Run drains it and returns, and
// the processed multiset must equal the delivered set.
func c06Backlog(ctx context.Context, run *common.Run, obs *c06obs, idx int) {
	rng := common.Rng(run.Seed, int64(690000+idx))
	tm := bitcoin_reader.NewTxManager(time.Hour)
	proc := netx.NewRecProcessor()
	proc.Relevant = func(id Hash) bool { return false }
	gate := make(chan struct{})
	proc.OnCall = func(kind string) { <-gate }
	tm.SetTxProcessor(proc)
	runDone := make(chan error, 1)
	go func() { runDone <- tm.Run(ctx) }()
	interrupt := make(chan interface{})
	peer := uuid.New()
	n := 1001 + rng.Intn(3) // one being processed + a full channel (+ up to 2 more that have to wait with the last one)
	want := map[Hash]int{}
	var txs []*wire.MsgTx
	for i := 0; i < n+1; i++ {
		tx := netx.MkTx(rng, 10)
		txs = append(txs, tx)
		want[*tx.TxHash()] = 1
	}
	wit := map[string]interface{}{"kind": "tx-delivered-while-processor-backlogged", "seed": run.Seed, "case": idx, "delivered": len(txs), "processor_stalled_ms": 3600}
	// announced by a second peer as well, so that a lost transaction would have a source to be re-requested from
	last := txs[len(txs)-1]
	tm.AddTxID(ctx, uuid.New(), *last.TxHash())
	tm.AddTxID(ctx, peer, *last.TxHash())
	var wg sync.WaitGroup
	returned := make(chan struct{})
	wg.Add(1)
	go func() {
		defer wg.Done()
		defer close(returned)
		for _, tx := range txs {
			if err := tm.AddTx(ctx, interrupt, peer, tx); err != nil {
				run.Inconclusive("backlog: AddTx: " + err.Error())
				return
			}
			run.Touch()
		}
	}()
	time.Sleep(3600 * time.Millisecond) // the manager's own warning timer is 3 s
	close(gate)
	select {
	case <-returned:
	case <-time.After(2 * time.Minute):
		run.Inconclusive("backlog: the delivering calls did not return within two minutes of the processor being released")
		close(interrupt)
		wg.Wait()
		tm.Stop(ctx)
		<-runDone
		return
	}
	tm.Stop(ctx)
	select {
	case err := <-runDone:
		if err != nil {
			run.Inconclusive("backlog: Run: " + err.Error())
			return
		}
	case <-time.After(2 * time.Minute):
		run.Inconclusive("backlog: Run did not return within two minutes of Stop")
		return
	}
	run.Eval(1)
	atomic.AddInt64(&obs.histories, 1)
	got := map[Hash]int{}
	for _, e := range proc.Snapshot() {
		if e.Kind == "process" {
			got[e.TxID]++
		}
	}
	atomic.AddInt64(&obs.delivered, int64(len(got)))
	for id, w := range want {
		if got[id] != w {
			which := "earlier"
			if id == *last.TxHash() {
				which = "last"
			}
			run.Violate(common.Violation{Clause: "delivered-tx-handed-to-processor-exactly-once", Signature: fmt.Sprintf("processed-count/%s/processor-backlogged/%s-delivery", cnt3(got[id], w), which),
				Detail:  fmt.Sprintf("%d transactions delivered while the processor was stalled for 3.6 s (hand-over channel full): tx %s was handed to the processor %d times", len(txs), id, got[id]),
				Witness: wit})
			return
		}
	}
	run.DistinctStr(fmt.Sprintf("backlog/%d", len(txs)))
}
