package conc

import (
	"context"
	"fmt"
	"math/rand"
	"os"
	"runtime"
	"sort"
	"strings"
	"sync"
	"sync/atomic"
	"time"

	"verifharness/common"
	"verifharness/hdr"
	"verifharness/netx"

	bitcoin_reader "github.com/tokenized/bitcoin_reader"
	"github.com/tokenized/bitcoin_reader/headers"
	"github.com/tokenized/config"
	"github.com/tokenized/pkg/bitcoin"
	"github.com/tokenized/pkg/wire"
	"github.com/tokenized/threads"
)

type syncEvent struct {
	Seq  int
	Kind string // request reorg extend append coinbase trigger idle
	Hash Hash
	Note string
}

type syncEnv struct {
	mu           sync.Mutex
	events       []syncEvent
	blocks       map[Hash]*TestBlock
	height       map[Hash]int
	parent       map[Hash]Hash
	best         map[Hash]bool // on some best chain version since the last idle point
	bestNow      []Hash        // current best chain by height
	btm          *RecBlockTxManager
	plan         func(n int) string
	nreq         int
	notAvailRun  int
	rng          *rand.Rand
	wg           sync.WaitGroup
	violations   []string
	start        int
	stallOrphans bool
	slowHash     Hash
	slowUsed     bool
	// set when the reader cancels a request for a block that had left the best chain (its 10 s
	// orphan poll noticed the reorganisation): from then on the round knows its list is stale
	orphanAbort       bool
	orphanAbortHash   Hash
	orphanAbortHeight int
}

func (e *syncEnv) log(kind string, h Hash, note string) {
	e.events = append(e.events, syncEvent{Seq: len(e.events), Kind: kind, Hash: h, Note: note})
}

func (e *syncEnv) RequestBlock(ctx context.Context, hash Hash, handler bitcoin_reader.HandleBlock, onStop bitcoin_reader.OnStop) (bitcoin_reader.BlockRequestCanceller, error) {
	e.mu.Lock()
	blk := e.blocks[hash]
	ht, known := e.height[hash]
	beh := e.plan(e.nreq)
	e.nreq++
	if hash == e.slowHash && !e.slowUsed && (e.slowHash != Hash{}) {
		e.slowUsed = true
		beh = "slow10s"
	}
	if e.stallOrphans && known && !(ht < len(e.bestNow) && e.bestNow[ht] == hash) {
		beh = "never" // the block left the best chain: no peer serves it any more
	}
	note := beh
	if !known {
		e.violations = append(e.violations, "unknown-block-requested")
	} else {
		if ht < e.start {
			e.violations = append(e.violations, fmt.Sprintf("below-start-height|block at height %d requested, start height %d", ht, e.start))
		}
		if e.btm.Has(hash) {
			var tail []string
			for _, ev := range e.events {
				switch ev.Kind {
				case "request":
					tail = append(tail, fmt.Sprintf("req@%d(%s)", e.height[ev.Hash], ev.Note))
				case "append":
					tail = append(tail, fmt.Sprintf("append@%d", e.height[ev.Hash]))
				default:
					tail = append(tail, ev.Kind)
				}
			}
			buf := make([]byte, 4096)
			buf = buf[:runtime.Stack(buf, false)]
			caller := "?"
			for _, l := range strings.Split(string(buf), "\n") {
				if strings.Contains(l, "block_manager.go:") || strings.Contains(l, "node_manager.go:") {
					caller += " " + strings.TrimSpace(l)
				}
			}
			e.violations = append(e.violations, fmt.Sprintf("already-processed-block-requested|height %d; caller %s; events so far: %v", ht, caller, tail))
		}
		if !e.best[hash] {
			e.violations = append(e.violations, fmt.Sprintf("non-best-chain-block-requested|height %d", ht))
		}
		if e.orphanAbort && hash != e.orphanAbortHash && ht > e.orphanAbortHeight && !(ht < len(e.bestNow) && e.bestNow[ht] == hash) {
			e.violations = append(e.violations, fmt.Sprintf("abandoned-branch-block-requested-after-orphan-abort|block at height %d of the abandoned branch requested after the pending block at height %d was abandoned as orphaned (the round continued on its stale list)", ht, e.orphanAbortHeight))
		}
	}
	e.log("request", hash, note)
	reqIdx := len(e.events) - 1
	seed := e.rng.Int63()
	e.mu.Unlock()
	if beh == "notavail" || blk == nil {
		return nil, bitcoin_reader.ErrNodeNotAvailable
	}
	node := NewFakeNode()
	if beh == "never" {
		// an orphaned request nobody serves: the only thing that cancels it (within the horizon
		// of a case) is the reader abandoning it
		node.OnCancel = func() {
			e.mu.Lock()
			if !e.orphanAbort {
				e.orphanAbort, e.orphanAbortHash, e.orphanAbortHeight = true, hash, ht
				e.log("orphan-abort", hash, "")
			}
			e.mu.Unlock()
		}
		return node, nil
	}
	e.wg.Add(1)
	go func() {
		defer e.wg.Done()
		r := rand.New(rand.NewSource(seed))
		if beh == "slow" {
			time.Sleep(time.Duration(1+r.Intn(6)) * time.Millisecond)
		}
		if beh == "slowdrop" {
			// the manager resets its no-node counter when one of its 2 ms polls sees an active
			// download: keep this one active for hundreds of poll intervals so that a poll delayed
			// by machine load cannot miss it
			time.Sleep(1200 * time.Millisecond)
		}
		if beh == "slow10s" {
			time.Sleep(10600 * time.Millisecond)
		}
		ch := make(chan *wire.MsgTx, 1000)
		stopFeed := make(chan struct{})
		var once sync.Once
		// The manager handles one block request at a time and cancels every download of a block
		// before it turns to the next request: once another block has been requested, this
		// download must have been cancelled (looked at before the node starts delivering, so that
		// a cancellation arriving in between cannot be mistaken).
		e.mu.Lock()
		movedOn := -1
		for _, ev := range e.events[reqIdx+1:] {
			if ev.Kind == "request" && ev.Hash != hash {
				movedOn = e.height[ev.Hash]
				break
			}
		}
		e.mu.Unlock()
		if !node.BeginHandler(func() { once.Do(func() { close(stopFeed) }) }) {
			return
		}
		if movedOn >= 0 {
			e.mu.Lock()
			e.violations = append(e.violations, fmt.Sprintf("download-not-cancelled-when-its-block-request-ended|the download of the block at height %d requested from a slow node was still not cancelled after the manager had gone on to request the block at height %d: the node delivers the block again", ht, movedOn))
			e.mu.Unlock()
		}
		deliver := blk
		if beh == "wrong" {
			deliver = MkBlock(r, blk.Header.PrevBlock, 2)
		}
		cutAt := len(deliver.Txs)
		if beh == "drop" || beh == "slowdrop" {
			cutAt = r.Intn(len(deliver.Txs))
		}
		go func() {
			defer close(ch)
			for i := 0; i < cutAt; i++ {
				select {
				case ch <- deliver.Txs[i]:
				case <-stopFeed:
					return
				}
			}
		}()
		handler(ctx, deliver.Header, uint64(len(deliver.Txs)), ch)
		node.EndHandler()
		if beh == "drop" || beh == "slowdrop" {
			onStop(ctx)
		}
	}()
	return node, nil
}

type c05obs struct {
	cases, requests, processed, rounds, lostTrigger, orphanCases int64
}

func waitIdle(m *bitcoin_reader.NodeManager, d time.Duration) (idle bool, running bool, pending bool) {
	deadline := time.Now().Add(d)
	stable := 0
	for time.Now().Before(deadline) {
		r, p := m.VerifBlockSyncState()
		if !r && !p {
			stable++
			if stable >= 3 {
				return true, r, p
			}
		} else {
			stable = 0
		}
		if !r && p {
			// restart requested but no round running: nothing will happen until the next trigger
			time.Sleep(3 * time.Millisecond)
			r2, p2 := m.VerifBlockSyncState()
			if !r2 && p2 {
				return false, r2, p2
			}
		}
		time.Sleep(300 * time.Microsecond)
	}
	r, p := m.VerifBlockSyncState()
	return false, r, p
}

func c05Case(ctx context.Context, run *common.Run, obs *c05obs, idx int, orphan bool, slow10 bool) {
	if run.Saturated() {
		return
	}
	rng := common.Rng(run.Seed, int64(500000+idx))
	L := 1 + rng.Intn(30)
	conc := 1
	if idx%10 == 9 {
		conc = 2 + rng.Intn(2)
	}
	repo := headers.NewRepository(&headers.Config{Network: bitcoin.MainNet, MaxBranchDepth: 1000}, common.NewMemStore())
	repo.InitializeWithGenesis()
	repo.DisableDifficulty()
	env := &syncEnv{blocks: map[Hash]*TestBlock{}, height: map[Hash]int{}, parent: map[Hash]Hash{}, best: map[Hash]bool{},
		btm: NewRecBlockTxManager(), rng: rand.New(rand.NewSource(rng.Int63()))}
	gen := *netx.MainGenesisHash()
	env.height[gen] = 0
	env.bestNow = []Hash{gen}
	env.best[gen] = true
	addBlock := func(prev Hash, bits uint32) *TestBlock {
		b := MkBlock(rng, prev, 1+rng.Intn(4))
		b.Header.Bits = bits
		b.Hash = *b.Header.BlockHash()
		env.mu.Lock()
		env.blocks[b.Hash] = b
		env.height[b.Hash] = env.height[prev] + 1
		env.parent[b.Hash] = prev
		// every generated block is on the best chain at the moment it is accepted (extensions) or
		// becomes so when its fork overtakes; mark it before the repository can report it
		env.best[b.Hash] = true
		env.mu.Unlock()
		return b
	}
	refreshBest := func(kind string) {
		// best chain as the repository reports it
		h := repo.Height()
		chain := make([]Hash, h+1)
		for i := 0; i <= h; i++ {
			hh, err := repo.Hash(ctx, i)
			if err != nil || hh == nil {
				return
			}
			chain[i] = *hh
		}
		env.mu.Lock()
		for _, x := range chain {
			env.best[x] = true
		}
		changed := len(env.bestNow) > 0 && len(chain) > 0 && !(len(chain) >= len(env.bestNow) && chain[len(env.bestNow)-1] == env.bestNow[len(env.bestNow)-1])
		env.bestNow = chain
		if changed {
			env.log("reorg", chain[len(chain)-1], kind)
		} else {
			env.log("extend", chain[len(chain)-1], kind)
		}
		env.mu.Unlock()
	}
	prev := gen
	for i := 0; i < L; i++ {
		b := addBlock(prev, 0x1d00ffff)
		if err := repo.ProcessHeader(ctx, b.Header); err != nil {
			run.Inconclusive("chain-build: " + err.Error())
			return
		}
		prev = b.Hash
	}
	refreshBest("initial")
	start := []int{0, 1, L / 2, L - 1, L, L + 1, rng.Intn(L + 2)}[rng.Intn(7)]
	if start < 1 {
		start = 1 // height 0 is the real genesis block, whose transactions the scripted source cannot serve
	}
	env.start = start
	// pre-processed set
	pre := map[int]bool{}
	switch rng.Intn(5) {
	case 0:
	case 1: // contiguous prefix
		k := rng.Intn(L + 1)
		for h := 0; h <= k; h++ {
			pre[h] = true
		}
	case 2: // tip already processed
		pre[L] = true
	case 3: // arbitrary
		for h := 0; h <= L; h++ {
			if rng.Intn(3) == 0 {
				pre[h] = true
			}
		}
	case 4: // one block somewhere
		pre[rng.Intn(L+1)] = true
	}
	if !slow10 {
		for h := range pre {
			env.btm.Blocks[env.bestNow[h]] = nil
		}
	}
	// failure plan
	faulty := rng.Intn(3) != 0
	if slow10 {
		// one block's transactions arrive only after the reader's 10 s orphan poll has fired; the
		// walk back ends at an already processed block
		faulty = false
		for h := range pre {
			delete(pre, h)
		}
		k := start + rng.Intn(max1(L-start, 1))
		if k > L-1 {
			k = L - 1
		}
		for h := 0; h <= k; h++ {
			pre[h] = true
		}
		for h := range pre {
			env.btm.Blocks[env.bestNow[h]] = nil
		}
		if k+1 <= L {
			env.slowHash = env.bestNow[k+1+rng.Intn(L-k)]
		}
	}
	planSeed := rng.Int63()
	consecutiveNA := 0
	longOutage := faulty && !orphan && !slow10 && idx%5 == 2
	env.plan = func(n int) string {
		if longOutage {
			// two outages of the same block request, each within the manager's limit of 20 polls
			// without an active download, separated by a download that starts and fails
			switch {
			case n < 12, n > 12 && n < 25:
				return "notavail"
			case n == 12:
				return "slowdrop"
			}
			return "deliver"
		}
		if !faulty || n > 40 {
			return "deliver"
		}
		r := rand.New(rand.NewSource(planSeed + int64(n)*977))
		switch r.Intn(10) {
		case 0, 1:
			if consecutiveNA < 8 {
				consecutiveNA++
				return "notavail"
			}
		case 2:
			consecutiveNA = 0
			return "drop"
		case 3:
			consecutiveNA = 0
			return "wrong"
		case 4:
			consecutiveNA = 0
			return "slow"
		}
		consecutiveNA = 0
		return "deliver"
	}
	proc := netx.NewRecProcessor()
	cfg := bitcoin_reader.DefaultConfig()
	cfg.StartBlockHeight = start
	cfg.ConcurrentBlockRequests = conc
	cfg.BlockRequestDelay = config.NewDuration(2 * time.Millisecond)
	mgr := bitcoin_reader.NewNodeManager("/verif/", cfg, repo, netx.NewSpyPeers())
	env.btm.OnCall = func(kind string, h Hash) {
		if kind == "append" {
			env.mu.Lock()
			env.log("append", h, "")
			env.mu.Unlock()
		}
	}
	bm := bitcoin_reader.NewBlockManager(env.btm, env, conc, 2*time.Millisecond)
	mgr.SetBlockManager(env.btm, bm, proc)
	bmThread := threads.NewInterruptableThread("bm", bm.Run)
	bmDone := bmThread.GetCompleteChannel()
	bmThread.Start(ctx)
	defer func() {
		mgr.Stop(ctx)
		bmThread.Stop(ctx)
		select {
		case <-bmDone:
		case <-time.After(20 * time.Second):
		}
		env.wg.Wait()
	}()

	atomic.AddInt64(&obs.cases, 1)
	run.Eval(1)
	desc := fmt.Sprintf("chain=%d start=%d preprocessed=%v faulty=%v concurrent=%d orphan=%v", L, start, keysOf(pre), faulty, conc, orphan)
	wit := map[string]interface{}{"kind": "block-sync-scenario", "case": idx, "seed": run.Seed, "chain_length": L, "start_height": start,
		"preprocessed_heights": keysOf(pre), "concurrent": conc, "orphan_case": orphan}
	if longOutage {
		wit["source_plan"] = "12 x no-node, one download that starts and drops, 12 x no-node, then recovery"
	}
	viol := func(clause, sig, detail string) {
		run.Violate(common.Violation{Clause: clause, Signature: sig, Detail: desc + ": " + detail, Witness: wit})
	}

	env.mu.Lock()
	env.log("trigger", Hash{}, "startup")
	env.mu.Unlock()
	if idx%3 == 1 {
		// several triggers at the same instant (the startup-delay thread and MonitorHeaders are
		// different goroutines in the library): still one round at a time
		var tw sync.WaitGroup
		gate := make(chan struct{})
		for g := 0; g < 4; g++ {
			tw.Add(1)
			go func(g int) {
				defer tw.Done()
				<-gate
				if g == 0 {
					mgr.VerifMarkStartupDelayComplete(ctx)
				} else {
					mgr.TriggerBlockSynchronize(ctx)
				}
			}(g)
		}
		close(gate)
		tw.Wait()
		wit["concurrent_triggers_at_start"] = 4
	} else {
		mgr.VerifMarkStartupDelayComplete(ctx)
	}

	// optionally more headers arrive during the round (as MonitorHeaders would: submit + trigger)
	extra := 0
	if !orphan && rng.Intn(2) == 0 {
		extra = 1 + rng.Intn(5)
		for i := 0; i < extra; i++ {
			time.Sleep(time.Duration(rng.Intn(1500)) * time.Microsecond)
			b := addBlock(prev, 0x1d00ffff)
			repo.ProcessHeader(ctx, b.Header)
			prev = b.Hash
			refreshBest("mid-sync")
			mgr.TriggerBlockSynchronize(ctx)
		}
	}
	if orphan {
		// a heavier fork replaces the top of the chain while requests are pending
		atomic.AddInt64(&obs.orphanCases, 1)
		if idx%2 == 0 {
			env.mu.Lock()
			env.stallOrphans = true // the orphaned request is never served: it must be abandoned
			env.mu.Unlock()
			wit["orphaned_blocks_never_served"] = true
		}
		time.Sleep(time.Duration(rng.Intn(2000)) * time.Microsecond)
		env.mu.Lock()
		env.log("reorg", Hash{}, "fork-begins") // logged before the first fork header is submitted
		env.mu.Unlock()
		forkAt := rng.Intn(L)
		fp := env.bestNow[forkAt]
		for i := 0; i < L-forkAt+1; i++ {
			b := addBlock(fp, 0x1c7fffff)
			repo.ProcessHeader(ctx, b.Header)
			fp = b.Hash
		}
		prev = fp
		refreshBest("fork-overtakes")
		mgr.TriggerBlockSynchronize(ctx)
	}
	idle, running, pending := waitIdle(mgr, 40*time.Second)
	if !idle && !running && pending {
		atomic.AddInt64(&obs.lostTrigger, 1)
		// the sync thread has ended, yet the restart flag a trigger set for it is still up: that
		// trigger started nothing and nothing will run until some later, unrelated trigger
		viol("processes-up-to-the-tip", "trigger-lost/restart-flag-set-while-no-round-running",
			"a trigger that arrived while the round was finishing only flagged the finished sync thread: no round is running and none will start (observed twice, 3 ms apart)")
		return
	} else if !idle {
		if orphan {
			env.mu.Lock()
			for _, v := range env.violations {
				if parts := strings.SplitN(v, "|", 2); parts[0] == "abandoned-branch-block-requested-after-orphan-abort" {
					env.mu.Unlock()
					viol("orphaned-block-abandoned-and-later-round-continues-on-new-best-chain", parts[0], parts[1])
					return
				}
			}
			env.mu.Unlock()
			if os.Getenv("VERIF_C05_DEBUG") != "" { // debugging aid
				env.mu.Lock()
				fmt.Fprintf(os.Stderr, "C05 orphan case %d still running: %s\n", idx, desc)
				for _, ev := range env.events {
					fmt.Fprintf(os.Stderr, "  %d %s h=%d %s\n", ev.Seq, ev.Kind, env.height[ev.Hash], ev.Note)
				}
				env.mu.Unlock()
			}
			run.Inconclusive("orphan-round-still-running-after-40s (the code re-checks an orphaned request every 10 s)")
			return
		}
		bmState := "block-manager-running"
		select {
		case err := <-bmDone:
			bmState = fmt.Sprintf("block-manager-ended(%v)", err)
		default:
		}
		env.mu.Lock()
		var tail []string
		for _, ev := range env.events {
			if ev.Kind == "request" {
				tail = append(tail, fmt.Sprintf("%d:%s", env.height[ev.Hash], ev.Note))
			}
		}
		env.mu.Unlock()
		viol("bounded-progress", "sync-round-does-not-end/"+bmState, fmt.Sprintf("synchronisation still running 40 s after the last fault (running=%v pending=%v) %s requests=%v", running, pending, bmState, tail))
		return
	}
	// a fault-free round runs to the tip: nothing may be left for a later trigger. With headers
	// arriving mid-round the last trigger came after the last header, so either the running round
	// was flagged to restart or a new round was started: at idle everything is processed as well.
	if idle && !faulty && !orphan && conc == 1 {
		env.mu.Lock()
		tipNow := len(env.bestNow) - 1
		var left []int
		if tipNow >= start && !pre[tipNow] {
			for h := tipNow; h >= start && !pre[h]; h-- {
				if !env.btm.Has(env.bestNow[h]) {
					left = append(left, h)
				}
			}
		}
		env.mu.Unlock()
		if len(left) > 0 {
			viol("processes-up-to-the-tip", fmt.Sprintf("round-ended-before-the-tip/slow-block=%v/headers-mid-round=%v", slow10, extra > 0),
				fmt.Sprintf("no source failures, %d headers arrived mid-round (each followed by a trigger), yet at idle heights %v are unprocessed", extra, left))
			return
		}
	}
	// final trigger after faults stopped
	faulty = false
	env.mu.Lock()
	env.log("trigger", Hash{}, "final")
	env.mu.Unlock()
	mgr.TriggerBlockSynchronize(ctx)
	idle, running, pending = waitIdle(mgr, 40*time.Second)
	if !idle {
		if !running && pending {
			mgr.TriggerBlockSynchronize(ctx)
			idle, running, pending = waitIdle(mgr, 40*time.Second)
		}
		if !idle {
			viol("bounded-progress", "sync-round-does-not-end-after-final-trigger", fmt.Sprintf("running=%v pending=%v", running, pending))
			return
		}
	}
	env.wg.Wait()

	// ---- oracle ----
	env.mu.Lock()
	defer env.mu.Unlock()
	for _, v := range env.violations {
		parts := strings.SplitN(v, "|", 2)
		d := ""
		if len(parts) > 1 {
			d = parts[1]
		}
		clause := "requests-only-unprocessed-best-chain-blocks-from-the-start-height"
		feature := tipStartFeature(L, start)
		if parts[0] == "already-processed-block-requested" {
			feature = concFeature(conc)
		}
		if parts[0] == "download-not-cancelled-when-its-block-request-ended" {
			clause, feature = "each-block-processed-at-most-once-per-round", ""
		}
		if parts[0] == "abandoned-branch-block-requested-after-orphan-abort" {
			clause, feature = "orphaned-block-abandoned-and-later-round-continues-on-new-best-chain", ""
		}
		viol(clause, parts[0]+feature, d)
		return
	}
	// order: consecutive distinct requests are parent->child unless a reorg happened in between
	var lastReq *syncEvent
	reorgSince := false // a reorganisation allows one restart from a lower height, whenever the old round notices it
	nreq := 0
	for i := range env.events {
		ev := &env.events[i]
		switch ev.Kind {
		case "reorg":
			reorgSince = true
		case "request":
			nreq++
			if lastReq != nil && lastReq.Hash != ev.Hash && !reorgSince {
				if env.parent[ev.Hash] != lastReq.Hash {
					viol("strictly-ascending-contiguous-order", fmt.Sprintf("request-order/delta=%d", clamp(env.height[ev.Hash]-env.height[lastReq.Hash])),
						fmt.Sprintf("block at height %d requested right after block at height %d", env.height[ev.Hash], env.height[lastReq.Hash]))
					return
				}
			}
			if lastReq != nil && lastReq.Hash != ev.Hash && env.parent[ev.Hash] != lastReq.Hash {
				reorgSince = false // the one allowed restart has been used
			}
			lastReq = ev
		}
	}
	atomic.AddInt64(&obs.requests, int64(nreq))
	// first request: the block above the most recent processed best-chain block, or the start height
	if !orphan {
		var first *syncEvent
		for i := range env.events {
			if env.events[i].Kind == "request" {
				first = &env.events[i]
				break
			}
		}
		tipH := L
		wantFirst := -1
		if tipH >= start && !pre[tipH] {
			wantFirst = start
			for h := tipH - 1; h >= 0 && h >= start; h-- {
				if pre[h] {
					wantFirst = h + 1
					break
				}
			}
			if wantFirst < start {
				wantFirst = start
			}
		}
		if first == nil && wantFirst != -1 && extra == 0 {
			viol("processes-from-most-recent-processed-block-or-start-height", "nothing-requested"+tipStartFeature(L, start), fmt.Sprintf("expected the first request at height %d", wantFirst))
			return
		}
		if first != nil && wantFirst != -1 && env.height[first.Hash] != wantFirst {
			viol("processes-from-most-recent-processed-block-or-start-height", fmt.Sprintf("first-request-height/delta=%d", clamp(env.height[first.Hash]-wantFirst))+tipStartFeature(L, start),
				fmt.Sprintf("first request at height %d, expected %d", env.height[first.Hash], wantFirst))
			return
		}
	}
	// each block processed at most once
	counts := map[Hash]int{}
	for _, h := range env.btm.AppendLog() {
		counts[h]++
	}
	for h, c := range counts {
		if c > 1 {
			viol("each-block-at-most-once-per-round", "block-processed-twice"+concFeature(conc), fmt.Sprintf("block at height %d recorded as processed %d times", env.height[h], c))
			return
		}
		atomic.AddInt64(&obs.processed, 1)
	}
	cb := map[Hash]int{}
	for _, pe := range proc.Snapshot() {
		if pe.Kind == "coinbase" {
			cb[pe.Block]++
		}
	}
	for h, c := range cb {
		if c > 1 {
			viol("each-block-at-most-once-per-round", "coinbase-processed-twice"+concFeature(conc), fmt.Sprintf("height %d: %d times", env.height[h], c))
			return
		}
	}
	// bounded progress: everything from the start point to the tip is processed now
	tip := len(env.bestNow) - 1
	if tip >= start {
		from := start
		for h := tip; h >= start; h-- {
			if pre[h] && h < len(env.bestNow) && orphanSafe(env, h, L) {
				from = h + 1
				break
			}
		}
		var missing []int
		for h := from; h <= tip; h++ {
			if !env.btm.Has(env.bestNow[h]) {
				missing = append(missing, h)
			}
		}
		if len(missing) > 0 {
			viol("bounded-progress", "best-chain-blocks-left-unprocessed"+tipStartFeature(L, start), fmt.Sprintf("heights %v of the best chain (tip %d) are not processed after the final round", missing, tip))
			return
		}
	}
	run.DistinctStr(desc)
	if idx < 3 {
		var seq []string
		for _, ev := range env.events {
			if ev.Kind == "request" {
				seq = append(seq, fmt.Sprintf("req@%d(%s)", env.height[ev.Hash], ev.Note))
			} else {
				seq = append(seq, ev.Kind)
			}
		}
		wit["events"] = seq
		run.Sample(wit)
	}
}

// orphanSafe: a pre-processed height only counts if that block is still on the best chain.
func orphanSafe(e *syncEnv, h, L int) bool {
	_, ok := e.btm.Blocks[e.bestNow[h]]
	return ok
}

func tipStartFeature(L, start int) string {
	switch {
	case L == start:
		return "/tip==start"
	case L < start:
		return "/tip<start"
	}
	return "/tip>start"
}

func clamp(d int) int {
	if d > 3 {
		return 3
	}
	if d < -3 {
		return -3
	}
	return d
}

func keysOf(m map[int]bool) []int {
	var out []int
	for k := range m {
		out = append(out, k)
	}
	sort.Ints(out)
	return out
}

func RunC05(tier string, seed int64) int {
	ctx := common.QuietCtx()
	run := common.NewRun("C05", tier, seed, "exploration")
	run.Rule = "real NodeManager (startup delay marked complete by hook, not dialling) + real header repository + real BlockManager.Run + scripted block source (deliver, slow, wrong block, drop mid-block, node-not-available < 20 polls) over chains of 1-30 blocks, start height in {0,1,mid,tip-1,tip,tip+1}, arbitrary already-processed sets, headers arriving mid-round with re-trigger, 1 (90%) or 2-3 concurrent downloads; orphan slice: a heavier fork overtakes while requests are pending. Oracle on the recorded request/processing log: never below start, never already processed, only best-chain blocks, parent->child order, first request position, at most once, and everything processed after the final trigger. distinct = scenario descriptors"
	run.Assumptions = []string{"round boundaries are observed through the VerifBlockSyncState hook; a round that is still running 40 s after the last fault is a violation for non-orphan cases and inconclusive for orphan cases (the code re-checks orphaned requests on a 10 s timer)",
		"hook-only: markStartupDelayComplete is invoked through the verif-tagged accessor instead of waiting for the startup timer"}
	n, no, ns := 3000, 20, 6
	if tier == "thorough" {
		n, no, ns = 40000, 200, 100
	}
	obs := &c05obs{}
	_ = hdr.RefMerkleRoot
	common.ParallelFor(n+no+ns, runtime.NumCPU()*3, func(i int) {
		switch {
		case i < no:
			c05Case(ctx, run, obs, 1000000+i, true, false)
		case i < no+ns:
			c05Case(ctx, run, obs, 2000000+i, false, true)
		default:
			c05Case(ctx, run, obs, i-no-ns, false, false)
		}
	})
	run.Extra("observed", map[string]int64{"scenarios": obs.cases, "block_requests": obs.requests, "blocks_processed": obs.processed,
		"orphan_scenarios": obs.orphanCases, "restart_flag_set_while_no_round_running": obs.lostTrigger})
	return run.Finish()
}

func concFeature(conc int) string {
	if conc > 1 {
		return "/concurrent-downloads>1"
	}
	return "/concurrent-downloads=1"
}

func max1(a, b int) int {
	if a > b {
		return a
	}
	return b
}
