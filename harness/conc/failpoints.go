package conc

import (
	"context"
	"fmt"
	"os"
	"strings"
	"runtime"
	"sort"

	"verifharness/common"
	"verifharness/fp"
)

// Failpoint phase (thorough tier of C05, C06 and C16): the same workloads and oracles, run
// against a scratch copy of the code under test in which gofail failpoints sit between critical
// sections (tools/failpoints.py). Each round arms a seeded subset of them with seeded sleep
// terms, so that the windows the harness cannot reach from outside (between two lock regions of
// one call, between a channel send and the next statement) are held open for 1-5 ms while the
// other goroutines run.

var fpTermChoices = []string{"sleep(1)", "sleep(2)", "50.0%sleep(1)", "20.0%sleep(3)", "5.0%sleep(5)", "", "", ""}

// the tx manager failpoints are on the path of every call of every peer, and gofail evaluates one
// failpoint's term under a lock (sleeps at one failpoint are serialised process-wide): keep them sparse
var fpTermChoicesHot = []string{"10.0%sleep(1)", "30.0%sleep(1)", "2.0%sleep(2)", "1.0%sleep(5)", "5.0%sleep(1)", "", ""}

func fpRelevant(prop string, name string) bool {
	switch prop {
	case "C06":
		return len(name) > 4 && name[:4] == "fpTx"
	case "C05": // block manager, downloader and the node manager's sync thread
		return len(name) > 4 && (name[:4] == "fpBd" || name[:4] == "fpBm" || name[:4] == "fpNm")
	default: // C16: block manager and downloader
		return len(name) > 4 && (name[:4] == "fpBd" || name[:4] == "fpBm")
	}
}

func RunFailpoints(prop, tier string, seed int64) int {
	ctx := common.QuietCtx()
	run := common.NewRun(prop, tier, seed, "exploration")
	run.Phase = "failpoints"
	run.MinDistinct = 2
	run.Rule = "the check's own workloads and oracles against a scratch copy of the code under test with gofail failpoints between critical sections (tools/failpoints.py); each round arms a seeded subset with seeded sleep terms (1-5 ms, 5-100 %); hits per failpoint are reported; under the race detector"
	if !fp.Compiled || len(fp.List()) == 0 {
		run.Inconclusive("failpoints-not-compiled-in")
		return run.Finish()
	}
	var names []string
	for _, n := range fp.List() {
		if fpRelevant(prop, n) {
			names = append(names, n)
		}
	}
	sort.Strings(names)
	rounds := 8
	rng := common.Rng(seed, 770000)
	var armedLog []map[string]string
	o6, o16, o5 := &c06obs{}, &c16obs{}, &c05obs{}
	for r := 0; r < rounds && !run.Saturated(); r++ {
		terms := map[string]string{}
		for _, n := range names {
			choices := fpTermChoices
			if prop == "C06" {
				choices = fpTermChoicesHot
			}
			if n == "fpTxPollBetweenShards" { // evaluated 256 times per poll
				choices = []string{"0.5%sleep(1)", "2.0%sleep(1)", ""}
			}
			if t := choices[rng.Intn(len(choices))]; t != "" {
				terms[n] = t
			}
		}
		if v := os.Getenv("VERIF_FP_TERMS"); v != "" { // debugging aid: "name=terms;name=terms"
			terms = map[string]string{}
			for _, kv := range strings.Split(v, ";") {
				if i := strings.Index(kv, "="); i > 0 {
					terms[kv[:i]] = kv[i+1:]
				}
			}
		}
		if len(terms) == 0 && len(names) > 0 {
			terms[names[rng.Intn(len(names))]] = "sleep(1)"
		}
		fp.Arm(terms)
		armedLog = append(armedLog, terms)
		base := 5000000 + r*100000
		switch prop {
		case "C06":
			common.ParallelFor(120, runtime.NumCPU(), func(i int) { c06History(ctx, run, o6, base+i) })
			common.ParallelFor(4, 4, func(i int) { c06EndToEnd(ctx, run, o6, base+i) })
		case "C16":
			common.ParallelFor(4000, runtime.NumCPU()*2, func(i int) { c16Level1(ctx, run, o16, base+i) })
			common.ParallelFor(400, runtime.NumCPU()*2, func(i int) { c16Level2(ctx, run, o16, base+i) })
		case "C05":
			common.ParallelFor(400, runtime.NumCPU()*2, func(i int) { c05Case(ctx, run, o5, base+i, false, false) })
		}
	}
	fp.Arm(nil)
	hits := fp.Hits()
	total := 0
	for _, n := range names {
		total += hits[n]
	}
	rel := map[string]int{}
	for _, n := range names {
		rel[n] = hits[n]
	}
	run.Extra("failpoints", map[string]interface{}{"compiled_in": fp.List(), "used_by_this_check": names, "rounds": rounds,
		"terms_per_round": armedLog, "times_fired": rel})
	if prop == "C05" {
		run.Extra("observed", map[string]int64{"scenarios": o5.cases, "block_requests": o5.requests, "restart_flag_set_while_no_round_running": o5.lostTrigger})
	}
	if total == 0 {
		run.Inconclusive(fmt.Sprintf("no failpoint fired (%d compiled in)", len(names)))
	}
	return run.Finish()
}

var _ = context.Background
