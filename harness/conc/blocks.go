package conc

import (
	"context"
	"fmt"
	"math/rand"
	"sync"

	"verifharness/hdr"
	"verifharness/netx"

	"github.com/google/uuid"
	"github.com/tokenized/pkg/bitcoin"
	"github.com/tokenized/pkg/merkle_proof"
	"github.com/tokenized/pkg/wire"
)

type Hash = bitcoin.Hash32

// TestBlock is a generated block: header whose merkle root is computed by the reference
// implementation over the txids.
type TestBlock struct {
	Header *wire.BlockHeader
	Hash   Hash
	Txs    []*wire.MsgTx
	TxIDs  []Hash
}

func MkBlock(rng *rand.Rand, prev Hash, ntx int) *TestBlock {
	b := &TestBlock{}
	for i := 0; i < ntx; i++ {
		tx := netx.MkTx(rng, rng.Intn(40))
		b.Txs = append(b.Txs, tx)
		b.TxIDs = append(b.TxIDs, *tx.TxHash())
	}
	b.Header = &wire.BlockHeader{Version: 1, PrevBlock: prev, Timestamp: 1600000000 + uint32(rng.Intn(1000000)),
		Bits: 0x1d00ffff, Nonce: rng.Uint32(), MerkleRoot: hdr.RefMerkleRoot(b.TxIDs)}
	b.Hash = *b.Header.BlockHash()
	return b
}

// RecBlockTxManager records AppendBlockTxIDs calls and can be pre-seeded / made to fail.
type RecBlockTxManager struct {
	mu      sync.Mutex
	Blocks  map[Hash][]Hash
	Appends []Hash // block hashes in call order
	FailOn  map[Hash]bool
	OnCall  func(kind string, h Hash)
}

func NewRecBlockTxManager() *RecBlockTxManager {
	return &RecBlockTxManager{Blocks: map[Hash][]Hash{}, FailOn: map[Hash]bool{}}
}

func (m *RecBlockTxManager) FetchBlockTxIDs(ctx context.Context, h Hash) ([]Hash, bool, error) {
	if m.OnCall != nil {
		m.OnCall("fetch", h)
	}
	m.mu.Lock()
	defer m.mu.Unlock()
	t, ok := m.Blocks[h]
	return t, ok, nil
}

func (m *RecBlockTxManager) AppendBlockTxIDs(ctx context.Context, h Hash, txids []Hash) error {
	if m.OnCall != nil {
		m.OnCall("append", h)
	}
	m.mu.Lock()
	defer m.mu.Unlock()
	if m.FailOn[h] {
		return fmt.Errorf("injected store failure")
	}
	m.Appends = append(m.Appends, h)
	m.Blocks[h] = append([]Hash(nil), txids...)
	return nil
}

func (m *RecBlockTxManager) Has(h Hash) bool {
	m.mu.Lock()
	defer m.mu.Unlock()
	_, ok := m.Blocks[h]
	return ok
}

func (m *RecBlockTxManager) AppendCount(h Hash) int {
	m.mu.Lock()
	defer m.mu.Unlock()
	n := 0
	for _, a := range m.Appends {
		if a == h {
			n++
		}
	}
	return n
}

func (m *RecBlockTxManager) AppendLog() []Hash {
	m.mu.Lock()
	defer m.mu.Unlock()
	return append([]Hash(nil), m.Appends...)
}

// FakeNode mirrors the contract of BitcoinNode as a block source for one request: its
// CancelBlockRequest reports "already started" iff the handler has begun and not finished, and in
// that case ends the transaction stream.
type FakeNode struct {
	id uuid.UUID
	mu sync.Mutex
	// state of the single outstanding request
	started   bool
	finished  bool
	cancelled bool // cancelled before start: the handler will never be called
	closeFeed func()
	OnCancel  func() // widening hook, called inside CancelBlockRequest (i.e. under the downloader's state lock)
	Cancels   int
}

func NewFakeNode() *FakeNode { return &FakeNode{id: uuid.New()} }

func (n *FakeNode) ID() uuid.UUID { return n.id }

func (n *FakeNode) CancelBlockRequest(ctx context.Context, h Hash) bool {
	if n.OnCancel != nil {
		n.OnCancel()
	}
	n.mu.Lock()
	defer n.mu.Unlock()
	n.Cancels++
	if n.finished {
		return false // request no longer known
	}
	if n.started {
		if n.closeFeed != nil {
			n.closeFeed()
			n.closeFeed = nil
		}
		return true
	}
	n.cancelled = true
	return false
}

// BeginHandler is called by the harness right before it invokes the handler, as the node does
// when the block message starts arriving. It returns false if the request was cancelled before.
func (n *FakeNode) BeginHandler(closeFeed func()) bool {
	n.mu.Lock()
	defer n.mu.Unlock()
	if n.cancelled {
		return false
	}
	n.started = true
	n.closeFeed = closeFeed
	return true
}

func (n *FakeNode) EndHandler() {
	n.mu.Lock()
	n.finished = true
	n.closeFeed = nil
	n.mu.Unlock()
}

func (p *quietProcessor) call() {
	if p.onCall != nil {
		p.onCall()
	}
}
func (p *quietProcessor) ProcessTx(ctx context.Context, tx *wire.MsgTx) (bool, error) {
	p.call()
	return tx.TxHash()[0]&1 == 0, nil
}
func (p *quietProcessor) CancelTx(ctx context.Context, txid bitcoin.Hash32) error { return nil }
func (p *quietProcessor) AddTxConflict(ctx context.Context, txid, c bitcoin.Hash32) error {
	return nil
}
func (p *quietProcessor) ConfirmTx(ctx context.Context, txid bitcoin.Hash32, h int, proof *merkle_proof.MerkleProof) error {
	p.call()
	return nil
}
func (p *quietProcessor) UpdateTxChainDepth(ctx context.Context, txid bitcoin.Hash32, d uint32) error {
	return nil
}
func (p *quietProcessor) ProcessCoinbaseTx(ctx context.Context, b bitcoin.Hash32, tx *wire.MsgTx) error {
	p.call()
	return nil
}
