package conc

import (
	"context"
	"fmt"
	"math/rand"
	"runtime"
	"sort"
	"strings"
	"sync"
	"sync/atomic"
	"time"

	"verifharness/common"

	bitcoin_reader "github.com/tokenized/bitcoin_reader"
	"github.com/tokenized/pkg/wire"
	"github.com/tokenized/threads"
)

// widen performs a seeded scheduling perturbation.
func widen(r *rand.Rand) {
	switch r.Intn(6) {
	case 0:
	case 1:
		runtime.Gosched()
	case 2:
		for i := 0; i < 200+r.Intn(3000); i++ {
			_ = i * i
		}
	case 3:
		time.Sleep(time.Duration(20+r.Intn(200)) * time.Microsecond)
	case 4:
		time.Sleep(time.Duration(r.Intn(1500)) * time.Microsecond)
	default:
		runtime.Gosched()
		runtime.Gosched()
	}
}

type evLog struct {
	mu  sync.Mutex
	evs []string
}

func (l *evLog) add(e string) {
	l.mu.Lock()
	l.evs = append(l.evs, e)
	l.mu.Unlock()
}

func (l *evLog) String() string {
	l.mu.Lock()
	defer l.mu.Unlock()
	return strings.Join(l.evs, ">")
}

// waitOrState waits for done; on watchdog expiry it returns the goroutine state summary.
func waitOrState(done <-chan struct{}, d time.Duration) (bool, string) {
	select {
	case <-done:
		return true, ""
	case <-time.After(d):
		return false, blockedState()
	}
}

// blockedState summarises goroutines parked in block_downloader.go / block_manager.go frames.
func blockedState() string {
	buf := make([]byte, 4<<20)
	n := runtime.Stack(buf, true)
	seen := map[string]bool{}
	for _, b := range strings.Split(string(buf[:n]), "\n\n") {
		if !strings.Contains(b, "block_downloader.go") && !strings.Contains(b, "block_manager.go") {
			continue
		}
		lines := strings.Split(b, "\n")
		state := ""
		if i := strings.Index(lines[0], "["); i >= 0 {
			state = strings.TrimSuffix(lines[0][i+1:], "]:")
			if j := strings.Index(state, ","); j >= 0 {
				state = state[:j]
			}
		}
		for _, l := range lines[1:] {
			if strings.Contains(l, "bitcoin_reader.(*Block") {
				fn := strings.TrimSpace(l)
				if i := strings.LastIndex(fn, "("); i > 0 {
					fn = fn[:i]
				}
				if i := strings.LastIndex(fn, "."); i > 0 {
					fn = fn[i+1:]
				}
				seen[state+"@"+fn] = true
				break
			}
		}
	}
	var out []string
	for k := range seen {
		out = append(out, k)
	}
	sort.Strings(out)
	return strings.Join(out, "+")
}

type c16obs struct {
	l1, l2, requests, completes, aborts int64
	sigs                                sync.Map
}

// level 1: one BlockDownloader, actors released in a seeded order.
func c16Level1(ctx context.Context, run *common.Run, obs *c16obs, idx int) {
	if run.Saturated() {
		return
	}
	rng := common.Rng(run.Seed, int64(1600000+idx))
	n := 1 + rng.Intn(6)
	var prev Hash
	rng.Read(prev[:])
	blk := MkBlock(rng, prev, n)
	proc := newQuietProcessor()
	btm := NewRecBlockTxManager()
	bd := bitcoin_reader.NewBlockDownloader(proc, btm, blk.Hash, 5)
	node := NewFakeNode()
	wr := rand.New(rand.NewSource(rng.Int63()))
	var wmu sync.Mutex
	w := func() {
		wmu.Lock()
		r := rand.New(rand.NewSource(wr.Int63()))
		wmu.Unlock()
		widen(r)
	}
	node.OnCancel = w
	proc.onCall = w
	bd.SetCanceller(node.ID(), node)
	log := &evLog{}

	all := []string{"handler", "cancel", "stop", "interrupt"}
	rng.Shuffle(len(all), func(i, j int) { all[i], all[j] = all[j], all[i] })
	acts := all[:1+rng.Intn(3)]
	k := []int{0, 1, n / 2, n}[rng.Intn(4)] // txs fed before the stream ends
	earlyClose := k < n
	wrongBlock := rng.Intn(12) == 0

	interrupt := make(chan interface{})
	runDone := make(chan struct{})
	var runErr error
	go func() {
		runErr = bd.Run(ctx, interrupt)
		log.add("run-ret")
		close(runDone)
	}()
	var wg sync.WaitGroup
	var terminal int32 // set once a terminal action has completed
	handlerReturned := false
	var doneMu sync.Mutex
	actorDone := map[string]bool{}
	for _, a := range acts {
		a := a
		delay := time.Duration(rng.Intn(300)) * time.Microsecond
		wg.Add(1)
		go func() {
			defer wg.Done()
			defer func() {
				doneMu.Lock()
				actorDone[a] = true
				doneMu.Unlock()
			}()
			time.Sleep(delay)
			switch a {
			case "handler":
				ch := make(chan *wire.MsgTx, 1000)
				stopFeed := make(chan struct{})
				var once sync.Once
				if !node.BeginHandler(func() { once.Do(func() { close(stopFeed) }) }) {
					log.add("hb-skipped")
					return // cancelled before the block arrived: the node never calls the handler
				}
				go func() {
					defer close(ch)
					for i := 0; i < k; i++ {
						select {
						case ch <- blk.Txs[i]:
						case <-stopFeed:
							return
						}
						w()
					}
				}()
				log.add("hb-in")
				hd := blk.Header
				if wrongBlock {
					c := blk.Header.Copy()
					c.Nonce++
					hd = &c
				}
				bd.HandleBlock(ctx, hd, uint64(n), ch)
				node.EndHandler()
				log.add("hb-out")
				handlerReturned = true
				atomic.StoreInt32(&terminal, 1)
			case "cancel":
				log.add("cancel-in")
				bd.Cancel(ctx)
				log.add("cancel-out")
				atomic.StoreInt32(&terminal, 1)
			case "stop":
				log.add("stop-in")
				bd.Stop(ctx)
				log.add("stop-out")
				atomic.StoreInt32(&terminal, 1)
			case "interrupt":
				log.add("interrupt")
				close(interrupt)
				atomic.StoreInt32(&terminal, 1)
			}
		}()
	}
	actorsDone := make(chan struct{})
	go func() { wg.Wait(); close(actorsDone) }()
	atomic.AddInt64(&obs.l1, 1)
	run.Eval(1)
	desc := fmt.Sprintf("acts=%v k=%d/%d early-close=%v wrong-block=%v", acts, k, n, earlyClose, wrongBlock)
	wit := map[string]interface{}{"kind": "downloader-schedule", "case": idx, "seed": run.Seed, "actions": acts, "txs_fed": k, "txs": n}
	if ok, st := waitOrState(actorsDone, 20*time.Second); !ok {
		var stuck []string
		doneMu.Lock()
		for _, a := range acts {
			if !actorDone[a] {
				stuck = append(stuck, a)
			}
		}
		doneMu.Unlock()
		run.Violate(common.Violation{Clause: "nothing-stays-blocked-on-signalling-channels", Signature: "action-does-not-return/" + sortedJoin(stuck) + "/of=" + sortedJoin(acts),
			Detail: desc + ": " + sortedJoin(stuck) + " did not return; events " + log.String() + "; goroutines in downloader/manager frames (whole process): " + st, Witness: wit})
		select {
		case <-interrupt:
		default:
			close(interrupt)
		}
		return
	}
	// every case contains at least one action; has a terminal action completed?
	// (a Cancel that found the handler started is terminal only through the handler's end, which
	// the fake node triggers by ending the stream; a skipped handler is not an action)
	if ok, st := waitOrState(runDone, 20*time.Second); !ok {
		onlySkipped := len(acts) == 1 && acts[0] == "handler" && strings.Contains(log.String(), "hb-skipped")
		if !onlySkipped {
			run.Violate(common.Violation{Clause: "run-returns", Signature: "run-does-not-return/after=" + sortedJoin(acts),
				Detail: desc + ": all actions completed but Run is still waiting; events " + log.String() + "; goroutines in downloader/manager frames (whole process): " + st, Witness: wit})
		}
		select {
		case <-interrupt:
		default:
			close(interrupt)
		}
		// do not wait for it: after an interrupt a Run that missed its completion signal sits in
		// cancelAndWaitForComplete for up to ten minutes
		waitOrState(runDone, 2*time.Second)
		return
	}
	_ = handlerReturned
	// nil completion only after the handler finished a full intact block
	if runErr == nil {
		full := btm.AppendCount(blk.Hash) == 1
		if !full {
			run.Violate(common.Violation{Clause: "complete-only-after-successful-download", Signature: "nil-result-without-processed-block/" + sortedJoin(acts),
				Detail: desc + ": Run returned nil but the block was not processed; events " + log.String(), Witness: wit})
		}
	}
	order := log.String()
	obs.sigs.Store(sortedJoin(acts)+"|"+order+"|"+errKind(runErr), true)
	run.DistinctStr(sortedJoin(acts) + "|" + order + "|" + errKind(runErr))
	if idx < 3 {
		wit["event_order"] = order
		wit["result"] = errKind(runErr)
		run.Sample(wit)
	}
}

func sortedJoin(a []string) string {
	b := append([]string(nil), a...)
	sort.Strings(b)
	return strings.Join(b, "+")
}

func errKind(err error) string {
	if err == nil {
		return "nil"
	}
	m := err.Error()
	for _, k := range []string{"Cancelled", "Interrupted", "Wrong Block", "Timeout", "merkle", "process tx"} {
		if strings.Contains(m, k) {
			return k
		}
	}
	return "other"
}

// quietProcessor is a minimal TxProcessor with a widening hook.
type quietProcessor struct {
	onCall func()
}

func newQuietProcessor() *quietProcessor { return &quietProcessor{} }

// ---- level 2: BlockManager ----

type planNode struct {
	*FakeNode
	behaviour string // deliver fail-wrong drop never deliver-slow
	delay     time.Duration
}

type fakeRequestor struct {
	mu         sync.Mutex
	rng        *rand.Rand
	blocks     map[Hash]*TestBlock
	calls      []Hash
	notAvail   int // next N calls return ErrNodeNotAvailable
	plan       func(hash Hash, nth int) string
	perHash    map[Hash]int
	live       map[Hash]int // requests handed out and not yet finished, per hash
	maxLive    map[Hash]int
	handlerOK  map[Hash]int // handlers that returned nil, per hash
	behaviours map[Hash][]string
	mgr        *bitcoin_reader.BlockManager
	overLimit  int32
	limit      int
	wg         sync.WaitGroup
	widen      func()
}

func (f *fakeRequestor) RequestBlock(ctx context.Context, hash Hash, handler bitcoin_reader.HandleBlock, onStop bitcoin_reader.OnStop) (bitcoin_reader.BlockRequestCanceller, error) {
	f.mu.Lock()
	f.calls = append(f.calls, hash)
	if f.mgr != nil {
		// (f) live downloads of one hash never exceed the configured number
		if c := f.mgr.DownloaderCount(hash); c >= f.limit {
			atomic.StoreInt32(&f.overLimit, int32(c))
		}
	}
	if f.notAvail > 0 {
		f.notAvail--
		f.mu.Unlock()
		return nil, bitcoin_reader.ErrNodeNotAvailable
	}
	nth := f.perHash[hash]
	f.perHash[hash]++
	beh := f.plan(hash, nth)
	f.behaviours[hash] = append(f.behaviours[hash], beh)
	blk := f.blocks[hash]
	delay := time.Duration(f.rng.Intn(3000)) * time.Microsecond
	seed := f.rng.Int63()
	f.mu.Unlock()
	node := NewFakeNode()
	node.OnCancel = f.widen
	f.wg.Add(1)
	go func() {
		defer f.wg.Done()
		r := rand.New(rand.NewSource(seed))
		time.Sleep(delay)
		switch beh {
		case "never":
			return
		case "drop":
			onStop(ctx)
			return
		}
		ch := make(chan *wire.MsgTx, 1000)
		stopFeed := make(chan struct{})
		var once sync.Once
		if !node.BeginHandler(func() { once.Do(func() { close(stopFeed) }) }) {
			return
		}
		hd := blk.Header
		txs := blk.Txs
		if beh == "fail-wrong" {
			c := blk.Header.Copy()
			c.Nonce++
			hd = &c
		}
		cutAt := len(txs)
		if beh == "fail-cut" {
			cutAt = r.Intn(len(txs))
		}
		go func() {
			defer close(ch)
			for i := 0; i < cutAt; i++ {
				select {
				case ch <- txs[i]:
				case <-stopFeed:
					return
				}
				if beh == "deliver-slow" {
					time.Sleep(time.Duration(r.Intn(2000)) * time.Microsecond)
				}
			}
		}()
		err := handler(ctx, hd, uint64(len(txs)), ch)
		node.EndHandler()
		if beh == "fail-cut" {
			onStop(ctx) // the node dropped mid-block
		}
		if err == nil && beh != "fail-wrong" {
			f.mu.Lock()
			f.handlerOK[hash]++
			f.mu.Unlock()
		}
	}()
	return node, nil
}

func c16Level2(ctx context.Context, run *common.Run, obs *c16obs, idx int) {
	if run.Saturated() {
		return
	}
	rng := common.Rng(run.Seed, int64(1650000+idx))
	conc := 1 + rng.Intn(3)
	delay := time.Duration(2+rng.Intn(6)) * time.Millisecond
	btm := NewRecBlockTxManager()
	fr := &fakeRequestor{rng: rand.New(rand.NewSource(rng.Int63())), blocks: map[Hash]*TestBlock{}, perHash: map[Hash]int{},
		live: map[Hash]int{}, maxLive: map[Hash]int{}, handlerOK: map[Hash]int{}, behaviours: map[Hash][]string{}, limit: conc}
	wr := rand.New(rand.NewSource(rng.Int63()))
	var wmu sync.Mutex
	fr.widen = func() {
		wmu.Lock()
		r := rand.New(rand.NewSource(wr.Int63()))
		wmu.Unlock()
		widen(r)
	}
	nreq := 1 + rng.Intn(5)
	var blocks []*TestBlock
	var prev Hash
	for i := 0; i < nreq; i++ {
		b := MkBlock(rng, prev, 1+rng.Intn(5))
		prev = b.Hash
		blocks = append(blocks, b)
		fr.blocks[b.Hash] = b
	}
	behaviours := []string{"deliver", "deliver", "deliver-slow", "fail-wrong", "drop", "never", "fail-cut"}
	planSeed := rng.Int63()
	fr.plan = func(h Hash, nth int) string {
		r := rand.New(rand.NewSource(planSeed + int64(h[0])*131 + int64(nth)))
		if nth >= 3 {
			return "deliver" // recovery: at most three bad sources per block
		}
		b := behaviours[r.Intn(len(behaviours))]
		if b == "never" && nth >= conc-1 {
			// a silent source is only ended by the downloader's own 2 minute timer; keep one
			// download slot free so that the request can still make progress without timers
			b = "drop"
		}
		return b
	}
	fr.notAvail = rng.Intn(4)
	m := bitcoin_reader.NewBlockManager(btm, fr, conc, delay)
	fr.mgr = m
	thread := threads.NewInterruptableThread("block manager", m.Run)
	mdone := thread.GetCompleteChannel()
	thread.Start(ctx)
	proc := newQuietProcessor()

	atomic.AddInt64(&obs.l2, 1)
	run.Eval(1)
	wit := map[string]interface{}{"kind": "block-manager-scenario", "case": idx, "seed": run.Seed, "requests": nreq, "concurrent": conc}
	abortAt := -1
	if rng.Intn(4) == 0 {
		abortAt = rng.Intn(nreq)
	}
	shutdownAt := -1
	if rng.Intn(6) == 0 {
		shutdownAt = rng.Intn(nreq)
	}
	var outcome []string
	stopped := false
	for i, b := range blocks {
		complete, abort := m.AddRequest(ctx, b.Hash, i+1, proc)
		if complete == nil {
			outcome = append(outcome, "refused")
			break
		}
		atomic.AddInt64(&obs.requests, 1)
		if i == abortAt {
			d := time.Duration(rng.Intn(4000)) * time.Microsecond
			go func() {
				time.Sleep(d)
				close(abort)
			}()
		}
		if i == shutdownAt {
			d := time.Duration(rng.Intn(4000)) * time.Microsecond
			go func() {
				time.Sleep(d)
				thread.Stop(ctx)
			}()
			stopped = true
		}
		// (c) exactly one terminal signal
		signals := 0
		var first string
		timeout := time.After(30 * time.Second)
	wait:
		for {
			select {
			case err, ok := <-complete:
				if !ok {
					if first == "" {
						first = "completed"
						signals++
					}
					break wait // a closed channel keeps yielding; one observation is the signal
				}
				signals++
				if first == "" {
					if err == bitcoin_reader.BlockAborted {
						first = "aborted"
					} else {
						first = "error:" + errKind(err)
					}
				} else {
					first += "+second-signal"
				}
				// after a value, look for a second signal briefly
				select {
				case err2, ok2 := <-complete:
					if ok2 || !ok2 {
						_ = err2
						signals++
						first += "+second-signal"
					}
				case <-time.After(5 * time.Millisecond):
				}
				break wait
			case <-mdone:
				first = "manager-ended"
				break wait
			case <-timeout:
				first = "none"
				break wait
			}
		}
		outcome = append(outcome, first)
		switch {
		case strings.Contains(first, "second-signal"):
			run.Violate(common.Violation{Clause: "exactly-one-terminal-signal", Signature: "two-terminal-signals/" + first,
				Detail: fmt.Sprintf("request %d got %s", i, first), Witness: wit})
		case first == "none":
			st := blockedState()
			fr.mu.Lock()
			behs := strings.Join(fr.behaviours[b.Hash], ",")
			fr.mu.Unlock()
			run.Violate(common.Violation{Clause: "exactly-one-terminal-signal", Signature: fmt.Sprintf("no-terminal-signal/sources=%s/concurrent=%d", behs, conc),
				Detail: fmt.Sprintf("request %d of %d: neither completed nor aborted within 30 s while the manager runs (concurrent=%d, sources %s, abort=%v shutdown=%v); goroutines: %s", i, nreq, conc, behs, i == abortAt, i == shutdownAt, st), Witness: wit})
		case first == "completed":
			atomic.AddInt64(&obs.completes, 1)
			// (e) complete implies a successful download of that hash
			fr.mu.Lock()
			ok := fr.handlerOK[b.Hash] > 0
			fr.mu.Unlock()
			if !ok || btm.AppendCount(b.Hash) < 1 {
				// the handler's return may still be in flight on another goroutine: give it a moment
				time.Sleep(20 * time.Millisecond)
				fr.mu.Lock()
				ok = fr.handlerOK[b.Hash] > 0
				fr.mu.Unlock()
				if !ok && btm.AppendCount(b.Hash) < 1 {
					run.Violate(common.Violation{Clause: "complete-only-after-successful-download", Signature: "completed-without-successful-download",
						Detail: fmt.Sprintf("request %d completed but no download of it finished without error", i), Witness: wit})
				}
			}
		case first == "aborted":
			atomic.AddInt64(&obs.aborts, 1)
			if i != abortAt {
				run.Violate(common.Violation{Clause: "exactly-one-terminal-signal", Signature: "aborted-without-abort-request", Witness: wit})
			}
		}
		if first == "manager-ended" || first == "none" {
			break
		}
	}
	// shutdown and quiescence
	if !stopped {
		thread.Stop(ctx)
	}
	select {
	case <-mdone:
	case <-time.After(30 * time.Second):
		run.Violate(common.Violation{Clause: "manager-run-returns", Signature: "manager-run-does-not-return", Detail: "goroutines in downloader/manager frames (whole process): " + blockedState(), Witness: wit})
		return
	}
	fdone := make(chan struct{})
	go func() { fr.wg.Wait(); close(fdone) }()
	if ok, st := waitOrState(fdone, 30*time.Second); !ok {
		run.Violate(common.Violation{Clause: "nothing-stays-blocked-on-signalling-channels", Signature: "source-goroutine-blocked",
			Detail: "a block source goroutine is still inside HandleBlock/Stop after the manager shut down; goroutines (whole process): " + st, Witness: wit})
		return
	}
	// (d) downloader list returns to empty
	deadline := time.Now().Add(10 * time.Second)
	left := 0
	for {
		left = 0
		for _, b := range blocks {
			left += m.DownloaderCount(b.Hash)
		}
		if left == 0 || time.Now().After(deadline) {
			break
		}
		time.Sleep(2 * time.Millisecond)
	}
	if left != 0 {
		run.Violate(common.Violation{Clause: "downloader-list-returns-to-empty", Signature: "downloaders-left",
			Detail: fmt.Sprintf("%d downloaders still registered after shutdown; outcomes %v; goroutines (whole process): %s", left, outcome, blockedState()), Witness: wit})
	}
	if c := atomic.LoadInt32(&fr.overLimit); c != 0 {
		run.Violate(common.Violation{Clause: "at-most-configured-concurrent-downloads", Signature: "too-many-concurrent-downloads",
			Detail: fmt.Sprintf("%d downloads of one block registered, configured %d", c, conc), Witness: wit})
	}
	// a block is appended at most once per successful handler; never without one
	run.DistinctStr(fmt.Sprintf("l2/%d/%d/%v/%d/%d", nreq, conc, outcome, abortAt, shutdownAt))
	if idx < 2 {
		wit["outcomes"] = outcome
		run.Sample(wit)
	}
}

func RunC16(tier string, seed int64) int {
	ctx := common.QuietCtx()
	run := common.NewRun("C16", tier, seed, "exploration")
	run.Rule = "level 1: one real BlockDownloader (Run goroutine) with 1-3 of {handler fed k of n txs then end/early close, Cancel, Stop, interrupt} released at seeded offsets, scheduling perturbations inside the canceller callback (under the downloader's state lock) and inside ProcessTx, fake canceller with the node's started/not-started contract; level 2: real BlockManager.Run with a scripted BlockRequestor (deliver, slow, wrong block, drop, never, cut mid-block, node-not-available), 1-3 concurrent downloads, request streams, abort signals, shutdown mid-request. Oracle: actions and Run return (watchdog expiry classified by goroutine state), exactly one terminal signal per request, completion only after a successful download, downloader list empties, configured concurrency respected. Everything under the race detector. distinct = (action set, observed event order, result)"
	run.Assumptions = []string{"a 20-30 s watchdog stands in for 'never returns'; when it fires the verdict is decided by the goroutine state (parked in block_downloader.go/block_manager.go frames), the production timers are 2 min / 1 h"}
	n1, n2 := 40000, 2500
	if tier == "thorough" {
		n1, n2 = 600000, 20000
	}
	obs := &c16obs{}
	common.QuietFirst(n1, 400, runtime.NumCPU()*2, func(i int) { c16Level1(ctx, run, obs, i) })
	common.QuietFirst(n2, 60, runtime.NumCPU()*2, func(i int) { c16Level2(ctx, run, obs, i) })
	nsig := 0
	obs.sigs.Range(func(k, v interface{}) bool { nsig++; return true })
	run.Extra("observed", map[string]int64{"level1_schedules": obs.l1, "level1_distinct_event_orders": int64(nsig), "level2_scenarios": obs.l2,
		"level2_requests": obs.requests, "level2_completed": obs.completes, "level2_aborted": obs.aborts})
	return run.Finish()
}
