// Package conc holds the checks for the concurrent components: peer book (C20), tx manager (C06),
// block downloader / manager (C16, C04) and block synchronisation (C05).
package conc

import (
	"bytes"
	"context"
	"encoding/binary"
	"fmt"
	"math"
	"math/rand"
	"os"
	"os/exec"
	"runtime"
	"sort"
	"strings"
	"sync"
	"sync/atomic"
	"time"

	"verifharness/common"

	"github.com/anishathalye/porcupine"
	bitcoin_reader "github.com/tokenized/bitcoin_reader"
)

func safe(f func()) (p string) {
	defer func() {
		if r := recover(); r != nil {
			p = fmt.Sprintf("%v", r)
		}
	}()
	f()
	return ""
}

type pbIn struct {
	Op       string // add score time get count
	Addr     string
	Delta    int32
	Min, Max int32
}

type pbOut struct {
	OK    bool
	Addrs string // sorted, \x00-joined
	N     int
}

// peer book sequential specification: state = sorted "addr\x01score" entries joined by \x00
type pbState map[string]int32

func encState(m pbState) string {
	ks := make([]string, 0, len(m))
	for k := range m {
		ks = append(ks, k)
	}
	sort.Strings(ks)
	var b strings.Builder
	for _, k := range ks {
		fmt.Fprintf(&b, "%s\x01%d\x00", k, m[k])
	}
	return b.String()
}

func decState(s string) pbState {
	m := pbState{}
	for _, e := range strings.Split(s, "\x00") {
		if e == "" {
			continue
		}
		i := strings.LastIndex(e, "\x01")
		var sc int32
		fmt.Sscanf(e[i+1:], "%d", &sc)
		m[e[:i]] = sc
	}
	return m
}

func filterState(m pbState, min, max int32) string {
	var ks []string
	for k, sc := range m {
		if sc >= min && (max == -1 || sc <= max) {
			ks = append(ks, k)
		}
	}
	sort.Strings(ks)
	return strings.Join(ks, "\x00")
}

var pbModel = porcupine.Model{
	Init: func() interface{} { return "" },
	Step: func(state, input, output interface{}) (bool, interface{}) {
		// state = current book, optionally followed by "\x02" + the stored book (absent: no file)
		full := state.(string)
		curS, savedS, hasSaved := full, "", false
		if i := strings.Index(full, "\x02"); i >= 0 {
			curS, savedS, hasSaved = full[:i], full[i+1:], true
		}
		m := decState(curS)
		in := input.(pbIn)
		out := output.(pbOut)
		encState := func(m pbState) string { // shadows the plain encoder: keep the stored part
			if hasSaved {
				return encState(m) + "\x02" + savedS
			}
			return encState(m)
		}
		switch in.Op {
		case "save":
			return true, curS + "\x02" + curS
		case "load":
			if hasSaved {
				return true, savedS + "\x02" + savedS
			}
			return true, ""
		case "clear":
			return true, ""
		case "add":
			_, exists := m[in.Addr]
			if out.OK == exists {
				return false, state
			}
			if !exists {
				m[in.Addr] = 0
			}
			return true, encState(m)
		case "score":
			sc, exists := m[in.Addr]
			if out.OK != exists {
				return false, state
			}
			if exists {
				m[in.Addr] = sc + in.Delta
			}
			return true, encState(m)
		case "time":
			_, exists := m[in.Addr]
			return out.OK == exists, state
		case "get":
			return out.Addrs == filterState(m, in.Min, in.Max), state
		case "count":
			return out.N == len(m), state
		}
		return false, state
	},
	Equal: func(a, b interface{}) bool { return a.(string) == b.(string) },
	DescribeOperation: func(in, out interface{}) string {
		return fmt.Sprintf("%+v -> %+v", in, out)
	},
}

var addrPool = []string{"", "[::1]:8333", "1.2.3.4:8333", strings.Repeat("long-address-", 80), "ünïcødé-地址:8333", "bad\xff\xfeutf8", "a", "b"}

func addrsOf(l bitcoin_reader.PeerList) (string, bool) {
	ks := make([]string, len(l))
	seen := map[string]bool{}
	dup := false
	for i, p := range l {
		ks[i] = p.Address
		if seen[p.Address] {
			dup = true
		}
		seen[p.Address] = true
	}
	sort.Strings(ks)
	return strings.Join(ks, "\x00"), dup
}

type c20obs struct {
	linOK, linIllegal, linUnknown, ops, prefixes, arbitrary int64
}

// concurrentHistory runs one concurrent workload and checks linearizability.
func c20Concurrent(ctx context.Context, run *common.Run, obs *c20obs, idx int) {
	rng := common.Rng(run.Seed, int64(200000+idx))
	repo := bitcoin_reader.NewPeerRepository(common.NewMemStore(), "")
	k := 2 + rng.Intn(7)
	nAddr := 3 + rng.Intn(4)
	addrs := append([]string(nil), addrPool...)
	rng.Shuffle(len(addrs), func(i, j int) { addrs[i], addrs[j] = addrs[j], addrs[i] })
	addrs = addrs[:nAddr]
	perG := 3 + rng.Intn(4)
	if k*perG > 40 {
		perG = 40 / k
	}
	var mu sync.Mutex
	var ops []porcupine.Operation
	var clock int64
	now := func() int64 { return atomic.AddInt64(&clock, 1) }
	var dupSeen atomic.Value
	var wg sync.WaitGroup
	start := make(chan struct{})
	for g := 0; g < k; g++ {
		seedG := rng.Int63()
		wg.Add(1)
		go func(g int) {
			defer wg.Done()
			r := rand.New(rand.NewSource(seedG))
			<-start
			for i := 0; i < perG; i++ {
				in := pbIn{Addr: addrs[r.Intn(len(addrs))]}
				var out pbOut
				switch r.Intn(12) {
				case 10:
					in.Op = "save"
				case 11:
					in.Op = []string{"load", "load", "clear"}[r.Intn(3)]
				case 0, 1, 2:
					in.Op = "add"
				case 3, 4, 5:
					in.Op = "score"
					in.Delta = int32(r.Intn(7) - 3)
				case 6:
					in.Op = "time"
				case 7, 8:
					in.Op = "get"
					in.Min = int32(r.Intn(7) - 3)
					in.Max = in.Min + int32(r.Intn(4))
					if r.Intn(3) == 0 || in.Max == -1 {
						in.Max = -1
					}
				default:
					in.Op = "count"
				}
				if r.Intn(3) == 0 {
					runtime.Gosched()
				}
				call := now()
				switch in.Op {
				case "add":
					out.OK, _ = repo.Add(ctx, in.Addr)
				case "score":
					out.OK = repo.UpdateScore(ctx, in.Addr, in.Delta)
				case "time":
					out.OK = repo.UpdateTime(ctx, in.Addr)
				case "get":
					l, _ := repo.Get(ctx, in.Min, in.Max)
					var dup bool
					out.Addrs, dup = addrsOf(l)
					if dup {
						dupSeen.Store(fmt.Sprintf("Get(%d,%d) returned an address twice", in.Min, in.Max))
					}
				case "count":
					out.N = repo.Count()
				case "save":
					repo.Save(ctx)
				case "load":
					repo.Load(ctx)
				case "clear":
					repo.Clear(ctx)
				}
				ret := now()
				mu.Lock()
				ops = append(ops, porcupine.Operation{ClientId: g, Input: in, Call: call, Output: out, Return: ret})
				mu.Unlock()
			}
		}(g)
	}
	close(start)
	wg.Wait()
	run.Eval(1)
	atomic.AddInt64(&obs.ops, int64(len(ops)))
	var shape []string
	for _, o := range ops {
		shape = append(shape, o.Input.(pbIn).Op)
	}
	run.DistinctStr(fmt.Sprintf("conc/%d/%d/%s", k, nAddr, strings.Join(shape, "")))
	w := map[string]interface{}{"kind": "peer-book-history", "goroutines": k, "addresses": nAddr, "ops": describeOps(ops)}
	if idx < 2 {
		run.Sample(w)
	}
	if v := dupSeen.Load(); v != nil {
		run.Violate(common.Violation{Clause: "each-address-held-once", Signature: "duplicate-address-in-get/concurrent", Detail: v.(string), Witness: w})
	}
	res, _ := porcupine.CheckOperationsVerbose(pbModel, ops, 20*time.Second)
	switch res {
	case porcupine.Ok:
		atomic.AddInt64(&obs.linOK, 1)
	case porcupine.Illegal:
		atomic.AddInt64(&obs.linIllegal, 1)
		run.Violate(common.Violation{Clause: "score-query-consistent-with-applied-deltas", Signature: "peer-book-history-not-linearizable",
			Detail: fmt.Sprintf("no sequential order of the %d recorded operations explains the observed results", len(ops)), Witness: w})
	default:
		atomic.AddInt64(&obs.linUnknown, 1)
		run.Inconclusive("porcupine-timeout")
	}
}

func describeOps(ops []porcupine.Operation) []string {
	var out []string
	for _, o := range ops {
		in := o.Input.(pbIn)
		ot := o.Output.(pbOut)
		out = append(out, fmt.Sprintf("c%d [%d,%d] %s(%q,%d,%d,%d) -> ok=%v n=%d addrs=%q", o.ClientId, o.Call, o.Return, in.Op, trunc(in.Addr), in.Delta, in.Min, in.Max, ot.OK, ot.N, trunc(ot.Addrs)))
	}
	return out
}

func trunc(s string) string {
	if len(s) > 40 {
		return s[:40] + "..."
	}
	return s
}

// sequential: op sequences with Save/Load/Clear against the model, including round trips.
func c20Sequential(ctx context.Context, run *common.Run, obs *c20obs, idx int) {
	rng := common.Rng(run.Seed, int64(210000+idx))
	st := common.NewMemStore()
	repo := bitcoin_reader.NewPeerRepository(st, "")
	m := pbState{}
	times := map[string][2]int64{} // addr -> [call sec, return sec] of the last stamp
	// what the store holds (nil until the first Save): Load on a used repository must replace the
	// whole in-memory state, index included, by exactly this
	var savedM pbState
	var savedTimes map[string][2]int64
	snapshotSaved := func() {
		savedM = pbState{}
		savedTimes = map[string][2]int64{}
		for a, sc := range m {
			savedM[a] = sc
		}
		for a, tw := range times {
			savedTimes[a] = tw
		}
	}
	var trace []string
	w := func() map[string]interface{} {
		return map[string]interface{}{"kind": "peer-book-sequence", "ops": trace}
	}
	pool := append([]string(nil), addrPool...)
	for i := 0; i < 6; i++ {
		b := make([]byte, rng.Intn(12))
		rng.Read(b)
		pool = append(pool, string(b))
	}
	n := 10 + rng.Intn(60)
	for i := 0; i < n; i++ {
		a := pool[rng.Intn(len(pool))]
		switch k := rng.Intn(17); {
		case k == 14:
			// Save alone; the repository keeps being used
			if err := repo.Save(ctx); err != nil {
				run.Violate(common.Violation{Clause: "save-load-round-trip", Signature: "save-fails", Detail: err.Error(), Witness: w()})
				return
			}
			trace = append(trace, "save")
			snapshotSaved()
		case k >= 15:
			// Load on the repository in use (unsaved additions and updates are dropped)
			var err error
			pan := safe(func() { err = repo.Load(ctx) })
			trace = append(trace, "load-in-place")
			if pan != "" || err != nil {
				run.Violate(common.Violation{Clause: "save-load-round-trip", Signature: "load-of-saved-file-fails", Detail: fmt.Sprintf("panic=%q err=%v", pan, err), Witness: w()})
				return
			}
			m = pbState{}
			times = map[string][2]int64{}
			for a, sc := range savedM {
				m[a] = sc
			}
			for a, tw := range savedTimes {
				times[a] = tw
			}
			if c := repo.Count(); c != len(m) {
				run.Violate(common.Violation{Clause: "save-load-round-trip", Signature: "load-in-place-count-differs", Detail: fmt.Sprintf("Count()=%d after Load, stored file has %d", c, len(m)), Witness: w()})
				return
			}
		case k < 4:
			ok, _ := repo.Add(ctx, a)
			trace = append(trace, fmt.Sprintf("add(%q)=%v", trunc(a), ok))
			_, ex := m[a]
			if ok == ex {
				run.Violate(common.Violation{Clause: "each-address-held-once", Signature: "add-result-wrong", Detail: fmt.Sprintf("Add(%q)=%v but present=%v", trunc(a), ok, ex), Witness: w()})
				return
			}
			if !ex {
				m[a] = 0
			}
		case k < 7:
			d := int32(rng.Intn(2001) - 1000)
			if rng.Intn(20) == 0 {
				d = math.MaxInt32
			}
			t0 := time.Now().Unix()
			ok := repo.UpdateScore(ctx, a, d)
			t1 := time.Now().Unix()
			trace = append(trace, fmt.Sprintf("score(%q,%d)=%v", trunc(a), d, ok))
			_, ex := m[a]
			if ok != ex {
				run.Violate(common.Violation{Clause: "score-query-consistent-with-applied-deltas", Signature: "updatescore-result-wrong", Witness: w()})
				return
			}
			if ex {
				m[a] += d
				times[a] = [2]int64{t0, t1}
			}
		case k < 8:
			t0 := time.Now().Unix()
			ok := repo.UpdateTime(ctx, a)
			t1 := time.Now().Unix()
			trace = append(trace, fmt.Sprintf("time(%q)=%v", trunc(a), ok))
			if _, ex := m[a]; ok != ex {
				run.Violate(common.Violation{Clause: "each-address-held-once", Signature: "updatetime-result-wrong", Witness: w()})
				return
			} else if ex {
				times[a] = [2]int64{t0, t1}
			}
		case k < 11:
			min := int32(rng.Intn(4001) - 2000)
			max := min + int32(rng.Intn(2000))
			if rng.Intn(3) == 0 {
				max = -1
			}
			if rng.Intn(10) == 0 {
				min = math.MinInt32
			}
			l, err := repo.Get(ctx, min, max)
			got, dup := addrsOf(l)
			trace = append(trace, fmt.Sprintf("get(%d,%d)=%d", min, max, len(l)))
			if err != nil || dup || got != filterState(m, min, max) {
				run.Violate(common.Violation{Clause: "score-query-returns-exactly-the-peers-in-range", Signature: fmt.Sprintf("get-wrong/dup=%v/unbounded=%v", dup, max == -1),
					Detail: fmt.Sprintf("Get(%d,%d) returned %d peers, model has %d in range", min, max, len(l), len(strings.Split(filterState(m, min, max), "\x00"))), Witness: w()})
				return
			}
			if c := repo.Count(); c != len(m) {
				run.Violate(common.Violation{Clause: "each-address-held-once", Signature: "count-wrong", Detail: fmt.Sprintf("Count()=%d model %d", c, len(m)), Witness: w()})
				return
			}
		case k < 13:
			// Save then Load into a fresh repository on the same store; continue on the loaded one
			if err := repo.Save(ctx); err != nil {
				run.Violate(common.Violation{Clause: "save-load-round-trip", Signature: "save-fails", Detail: err.Error(), Witness: w()})
				return
			}
			r2 := bitcoin_reader.NewPeerRepository(st, "")
			var err error
			pan := safe(func() { err = r2.Load(ctx) })
			trace = append(trace, "save+load")
			snapshotSaved()
			if pan != "" || err != nil {
				run.Violate(common.Violation{Clause: "save-load-round-trip", Signature: "load-of-saved-file-fails", Detail: fmt.Sprintf("panic=%q err=%v", pan, err), Witness: w()})
				return
			}
			all, _ := r2.Get(ctx, math.MinInt32, -1)
			if len(all) != len(m) {
				run.Violate(common.Violation{Clause: "save-load-round-trip", Signature: "round-trip-count-differs", Detail: fmt.Sprintf("%d peers after load, %d before", len(all), len(m)), Witness: w()})
				return
			}
			for _, p := range all {
				sc, ok := m[p.Address]
				if !ok || sc != p.Score {
					run.Violate(common.Violation{Clause: "save-load-round-trip", Signature: "round-trip-score-differs", Detail: fmt.Sprintf("%q score %d want %d (present %v)", trunc(p.Address), p.Score, sc, ok), Witness: w()})
					return
				}
				if tw, ok := times[p.Address]; ok {
					if int64(p.LastTime) < tw[0] || int64(p.LastTime) > tw[1] {
						run.Violate(common.Violation{Clause: "save-load-round-trip", Signature: "round-trip-last-seen-differs", Detail: fmt.Sprintf("%q LastTime %d not in call window [%d,%d]", trunc(p.Address), p.LastTime, tw[0], tw[1]), Witness: w()})
						return
					}
				} else if p.LastTime != 0 {
					run.Violate(common.Violation{Clause: "save-load-round-trip", Signature: "round-trip-last-seen-set-without-update", Witness: w()})
					return
				}
			}
			repo = r2
		default:
			pan := safe(func() { repo.Clear(ctx) })
			trace = append(trace, "clear")
			if pan != "" {
				run.Violate(common.Violation{Clause: "never-crashes", Signature: "clear-panics", Detail: pan, Witness: w()})
				return
			}
			m = pbState{}
			times = map[string][2]int64{}
			savedM, savedTimes = nil, nil // Clear removes the stored file too
		}
	}
	run.Eval(1)
	run.DistinctStr("seq/" + strings.Join(trace, ","))
	if idx < 2 {
		run.Sample(w())
	}
}

func pbFile(peers []bitcoin_reader.Peer) []byte {
	var b bytes.Buffer
	b.WriteByte(0)
	binary.Write(&b, binary.LittleEndian, int32(len(peers)))
	for _, p := range peers {
		binary.Write(&b, binary.LittleEndian, int32(len(p.Address)))
		b.WriteString(p.Address)
		binary.Write(&b, binary.LittleEndian, p.Score)
		binary.Write(&b, binary.LittleEndian, p.LastTime)
	}
	return b.Bytes()
}

// damaged files: every prefix of a saved file and seeded arbitrary contents.
func c20Files(ctx context.Context, run *common.Run, obs *c20obs, idx int) {
	rng := common.Rng(run.Seed, int64(220000+idx))
	st := common.NewMemStore()
	repo := bitcoin_reader.NewPeerRepository(st, "")
	n := 1 + rng.Intn(8)
	var want []bitcoin_reader.Peer
	for i := 0; i < n; i++ {
		a := addrPool[rng.Intn(len(addrPool))] + fmt.Sprint(i)
		repo.Add(ctx, a)
		d := int32(rng.Intn(200) - 100)
		repo.UpdateScore(ctx, a, d)
	}
	repo.Save(ctx)
	file, _ := st.Read(ctx, "peers")
	all, _ := repo.Get(ctx, math.MinInt32, -1)
	_ = want
	// record boundaries in file order
	type rec struct {
		addr string
		end  int
	}
	var recs []rec
	{
		off := 5
		for off+4 <= len(file) {
			l := int(int32(binary.LittleEndian.Uint32(file[off:])))
			end := off + 4 + l + 8
			if l < 0 || end > len(file) {
				break
			}
			recs = append(recs, rec{string(file[off+4 : off+4+l]), end})
			off = end
		}
	}
	if len(recs) != len(all) {
		run.Inconclusive("cannot-parse-saved-peer-file")
		return
	}
	load := func(b []byte) (*bitcoin_reader.StoragePeerRepository, error, string) {
		s2 := common.NewMemStore()
		s2.Put("peers", b)
		r := bitcoin_reader.NewPeerRepository(s2, "")
		var err error
		pan := safe(func() { err = r.Load(ctx) })
		return r, err, pan
	}
	for cut := 0; cut <= len(file); cut++ {
		r, err, pan := load(file[:cut])
		run.Eval(1)
		atomic.AddInt64(&obs.prefixes, 1)
		w := map[string]interface{}{"kind": "peer-file-prefix", "file_len": len(file), "cut": cut, "peers": len(recs)}
		if pan != "" {
			run.Violate(common.Violation{Clause: "loading-any-stored-bytes-never-crashes", Signature: "load-panics-on-prefix", Detail: pan, Witness: w})
			continue
		}
		_ = err
		got, _ := r.Get(ctx, math.MinInt32, -1)
		have := map[string]bool{}
		for _, p := range got {
			have[p.Address] = true
		}
		for _, rc := range recs {
			if rc.end <= cut && !have[rc.addr] {
				run.Violate(common.Violation{Clause: "keeps-every-peer-fully-written-before-the-cut", Signature: "fully-written-peer-lost-at-prefix",
					Detail: fmt.Sprintf("file cut at %d of %d: peer record ending at %d is missing after Load (err=%v)", cut, len(file), rc.end, err), Witness: w})
				break
			}
		}
	}
	run.DistinctStr(fmt.Sprintf("prefixes/%d/%d", n, len(file)))
	// arbitrary contents
	for i := 0; i < 40; i++ {
		var b []byte
		kind := ""
		switch rng.Intn(7) {
		case 0:
			kind = "random"
			b = make([]byte, rng.Intn(100))
			rng.Read(b)
		case 1:
			kind = "negative-count"
			b = append([]byte(nil), file...)
			if len(b) >= 5 {
				binary.LittleEndian.PutUint32(b[1:], uint32(int32(-1-rng.Intn(1000))))
			}
		case 2:
			kind = "huge-count"
			b = append([]byte(nil), file...)
			if len(b) >= 5 {
				binary.LittleEndian.PutUint32(b[1:], uint32(0x7fffffff-rng.Intn(1000)))
			}
		case 3:
			kind = "negative-address-length"
			b = append([]byte(nil), file...)
			if len(b) >= 9 {
				binary.LittleEndian.PutUint32(b[5:], uint32(int32(-1-rng.Intn(100000))))
			}
		case 4:
			kind = "huge-address-length"
			b = append([]byte(nil), file...)
			if len(b) >= 9 {
				binary.LittleEndian.PutUint32(b[5:], uint32(1<<20+rng.Intn(1<<26)))
			}
		case 5:
			kind = "wrong-version"
			b = append([]byte(nil), file...)
			b[0] = byte(1 + rng.Intn(255))
		default:
			kind = "byte-flip"
			b = append([]byte(nil), file...)
			b[rng.Intn(len(b))] ^= byte(1 + rng.Intn(255))
		}
		pan := ""
		if kind == "huge-count" || kind == "huge-address-length" {
			// sizes declared by the file are honoured in a memory-budgeted child process
			if idx%8 != 0 {
				continue
			}
			pan = loadInChild(b)
		} else {
			_, _, pan = load(b)
		}
		run.Eval(1)
		atomic.AddInt64(&obs.arbitrary, 1)
		run.DistinctStr("arbitrary/" + kind)
		if pan != "" {
			run.Violate(common.Violation{Clause: "loading-any-stored-bytes-never-crashes", Signature: "load-panics/" + kind,
				Detail: fmt.Sprintf("Load panicked on %s contents: %s", kind, pan), Witness: map[string]interface{}{"kind": "peer-file", "class": kind, "bytes_hex": fmt.Sprintf("%x", head(b, 300))}})
		}
	}
}

func head(b []byte, n int) []byte {
	if len(b) > n {
		return b[:n]
	}
	return b
}

func RunC20(tier string, seed int64) int {
	ctx := common.QuietCtx()
	run := common.NewRun("C20", tier, seed, "exploration")
	run.Rule = "(a) 2-8 goroutines x 3-6 addresses (empty, 1 KB, non-ASCII, invalid UTF-8) run Add/UpdateScore/UpdateTime/Get/Count; the recorded history (<= 40 ops, logical clock at the client boundary) is checked for linearizability against a sequential peer-book specification with porcupine, under the race detector; (b) sequential op sequences incl. Save/Load/Clear vs the model with full round-trip comparison; (c) every prefix of saved files and seeded arbitrary/damaged contents through Load (fault enumeration per file). distinct = op-kind sequences / file classes"
	run.Assumptions = []string{"Get is modelled by the set of addresses it returns (the Peer pointers alias live state, so scores are observed through narrow range queries instead)",
		"last-seen is held to the harness's whole-second call window around the stamping call"}
	nc, ns, nf := 400, 400, 40
	if tier == "thorough" {
		nc, ns, nf = 40000, 40000, 2000
	}
	obs := &c20obs{}
	common.QuietFirst(nc, 60, runtime.NumCPU()/2, func(i int) { c20Concurrent(ctx, run, obs, i) })
	common.ParallelFor(ns, runtime.NumCPU(), func(i int) { c20Sequential(ctx, run, obs, i) })
	common.ParallelFor(nf, runtime.NumCPU(), func(i int) { c20Files(ctx, run, obs, i) })
	run.Extra("observed", map[string]int64{"concurrent_histories_linearizable": obs.linOK, "concurrent_histories_illegal": obs.linIllegal,
		"porcupine_timeouts": obs.linUnknown, "concurrent_operations_recorded": obs.ops, "file_prefixes_loaded": obs.prefixes, "arbitrary_files_loaded": obs.arbitrary})
	return run.Finish()
}

// loadInChild loads peer-file bytes in a child process limited to 4 GiB of address space and
// returns a description of its death ("" if Load returned).
func loadInChild(b []byte) string {
	f, err := os.CreateTemp("", "c20-*.bin")
	if err != nil {
		return ""
	}
	defer os.Remove(f.Name())
	f.Write(b)
	f.Close()
	self, _ := os.Executable()
	cmd := exec.Command("bash", "-c", fmt.Sprintf("ulimit -v 4194304; exec timeout -s KILL 120 %s c20load %s", self, f.Name()))
	out, err := cmd.CombinedOutput()
	if err == nil {
		return ""
	}
	o := string(out)
	for _, k := range []string{"out of memory", "makeslice", "cap out of range", "len out of range", "panic:"} {
		if strings.Contains(o, k) {
			return "child process died: " + k
		}
	}
	return "child process died: " + err.Error()
}

// C20LoadWorker loads the given file contents as a peer file.
func C20LoadWorker(path string) int {
	b, err := os.ReadFile(path)
	if err != nil {
		return 2
	}
	s2 := common.NewMemStore()
	s2.Put("peers", b)
	r := bitcoin_reader.NewPeerRepository(s2, "")
	r.Load(common.QuietCtx())
	return 0
}
