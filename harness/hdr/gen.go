package hdr

import (
	"bytes"
	"context"
	"fmt"
	"math/rand"
	"os"
	"strings"

	"github.com/tokenized/pkg/bitcoin"
	"github.com/tokenized/pkg/wire"
)

// GenCfg steers the history generator. Weights are relative.
type GenCfg struct {
	MinOps, MaxOps    int
	MaxDepths         []int // MaxBranchDepth choices
	PruneDepths       []int // hook prune depths (0 = production depth only)
	BaseLens          []int // straight chain built first
	WClean            int
	WSave             int
	WReload           int
	WMark             int
	WUnmark           int
	WSub              int
	WSubmit           int
	Twin              bool // reload keeps both instances
	SaveAroundRefusal bool
	MerkleBlocks      bool // headers carry real merkle roots of generated txid lists (C18)
	EarlySave         bool // save once right after the base chain (C12)
	PeerReply         bool // C19: submit what a conformant peer would reply to our locator
}

var bitsChoices = []uint32{0x1d00ffff, 0x1d00ffff, 0x1d00ffff, 0x1c7fffff, 0x1d00fffe, 0x1c00ffff, 0x1d007fff}

type genState struct {
	rng       *rand.Rand
	e         *Engine
	gc        GenCfg
	lanes     []Hash // tips being raced against each other
	refused   []*wire.BlockHeader
	salt      uint32
	blocks    map[Hash][]Hash // header hash → txids (MerkleBlocks)
	forks     int
	nonAccept int
	reorgs    int
	shape     strings.Builder
	pruneD    int
}

func (g *genState) mkHeader(parent *Node, bits uint32) *wire.BlockHeader {
	g.salt++
	hd := &wire.BlockHeader{Version: 1, PrevBlock: parent.Hash, Timestamp: parent.Header.Timestamp + 600,
		Bits: bits, Nonce: g.rng.Uint32()}
	if g.gc.MerkleBlocks {
		n := 1 + g.rng.Intn(9)
		if g.rng.Intn(6) == 0 {
			n = 1 + g.rng.Intn(70)
		}
		txids := make([]Hash, n)
		for i := range txids {
			g.rng.Read(txids[i][:])
		}
		hd.MerkleRoot = RefMerkleRoot(txids)
		if g.blocks == nil {
			g.blocks = map[Hash][]Hash{}
		}
		g.blocks[*hd.BlockHash()] = txids
	} else {
		g.rng.Read(hd.MerkleRoot[:])
	}
	return hd
}

func (g *genState) mkHeaderRaw(prev Hash, ts uint32, bits uint32) *wire.BlockHeader {
	hd := &wire.BlockHeader{Version: 1, PrevBlock: prev, Timestamp: ts, Bits: bits, Nonce: g.rng.Uint32()}
	n := 1 + g.rng.Intn(5)
	txids := make([]Hash, n)
	for i := range txids {
		g.rng.Read(txids[i][:])
	}
	hd.MerkleRoot = RefMerkleRoot(txids)
	if g.blocks == nil {
		g.blocks = map[Hash][]Hash{}
	}
	g.blocks[*hd.BlockHash()] = txids
	return hd
}

func (g *genState) orphan() *wire.BlockHeader {
	hd := &wire.BlockHeader{Version: 1, Timestamp: 1300000000, Bits: 0x1d00ffff, Nonce: g.rng.Uint32()}
	g.rng.Read(hd.PrevBlock[:])
	g.rng.Read(hd.MerkleRoot[:])
	return hd
}

func (g *genState) model() *Model { return g.e.Insts[len(g.e.Insts)-1].M }

func (g *genState) randNode() *Node {
	m := g.model()
	i := g.rng.Intn(len(m.Nodes))
	for _, n := range m.Nodes {
		if i == 0 {
			return n
		}
		i--
	}
	return m.Tip
}

func (g *genState) nodeAtDepth(d int) *Node {
	m := g.model()
	n := m.Tip
	for i := 0; i < d && n.Parent != nil; i++ {
		n = n.Parent
	}
	return n
}

func (g *genState) submit(hd *wire.BlockHeader, note string) {
	m := g.model()
	p := m.Nodes[hd.PrevBlock]
	pi := -1
	if p != nil {
		pi = p.Seq
		if len(m.LiveChildren(p)) > 0 && m.Nodes[*hd.BlockHash()] == nil {
			g.forks++
		}
	}
	oldTip := m.Tip
	// C08: a refusal must also leave what a subsequent Save writes unchanged
	var imgBefore map[string][]byte
	if g.gc.SaveAroundRefusal && len(g.e.Insts) == 1 && g.rng.Intn(3) == 0 {
		if exp := m.Expected(hd); !exp["accepted"] {
			g.e.Save()
			g.shape.WriteString("S;")
			if !g.e.Failed() && len(g.e.live()) == 1 {
				imgBefore = g.e.Insts[0].Store.Image()
			}
		}
	}
	classes := g.e.Submit(hd, note)
	cl := classes[len(classes)-1]
	if imgBefore != nil && cl != "accepted" && !g.e.Failed() && len(g.e.live()) == 1 {
		g.e.Save()
		g.shape.WriteString("S;")
		if !g.e.Failed() {
			imgAfter := g.e.Insts[0].Store.Image()
			diff := ""
			for k, v := range imgBefore {
				if w, ok := imgAfter[k]; !ok || !bytes.Equal(v, w) {
					diff = k
				}
			}
			for k := range imgAfter {
				if _, ok := imgBefore[k]; !ok {
					diff = k
				}
			}
			g.e.Stats["save_images_compared_around_refusal"]++
			if diff != "" {
				g.e.fail("C08", "refusal-leaves-subsequent-save-identical", "save-image-changed-by/"+cl+"/"+keyKind(diff),
					fmt.Sprintf("submission answered %q, but the bytes written by Save differ afterwards (key %s)", cl, diff))
			}
		}
	}
	fmt.Fprintf(&g.shape, "s%d:%x:%s;", pi, hd.Bits&0xffffff, cl)
	if cl != "accepted" {
		g.nonAccept++
		if cl != "known" && len(g.refused) < 8 {
			g.refused = append(g.refused, hd)
		}
	}
	nm := g.model()
	if relation(oldTip, nm.Tip) == "reorg" {
		g.reorgs++
		for _, in := range g.e.Insts {
			in.ReorgSinceSave = true
		}
	}
}

// step performs one generated op.
func (g *genState) step() {
	gc := g.gc
	m := g.model()
	total := gc.WSubmit + gc.WClean + gc.WSave + gc.WReload + gc.WMark + gc.WUnmark + gc.WSub
	r := g.rng.Intn(total)
	switch {
	case r < gc.WSubmit:
		g.genSubmit()
		return
	case r < gc.WSubmit+gc.WClean:
		d := 0
		if g.pruneD > 0 && g.rng.Intn(2) == 0 {
			d = g.pruneD
		}
		g.e.Clean(d)
		fmt.Fprintf(&g.shape, "c%d;", d)
		if g.rng.Intn(4) == 0 {
			g.e.Clean(d)
			g.shape.WriteString("c;")
		}
	case r < gc.WSubmit+gc.WClean+gc.WSave:
		g.e.Save()
		g.shape.WriteString("S;")
	case r < gc.WSubmit+gc.WClean+gc.WSave+gc.WReload:
		d := 0
		if g.pruneD > 0 && g.rng.Intn(2) == 0 {
			d = g.pruneD
		}
		g.e.Reload(d, gc.Twin)
		fmt.Fprintf(&g.shape, "R%d;", d)
	case r < gc.WSubmit+gc.WClean+gc.WSave+gc.WReload+gc.WMark:
		var h Hash
		k := g.rng.Intn(10)
		switch {
		case k < 3: // best chain at some depth
			depth := 0
			switch g.rng.Intn(4) {
			case 1:
				depth = 1
			case 2:
				depth = m.Tip.Height / 2
			case 3:
				depth = g.rng.Intn(m.Tip.Height + 1)
			}
			n := g.nodeAtDepth(depth)
			if n == m.Genesis {
				n = m.Tip
			}
			h = n.Hash
		case k < 7: // any held node (often side branch)
			n := g.randNode()
			if n == m.Genesis {
				n = m.Tip
			}
			h = n.Hash
		case k < 8: // not yet seen: a header we will submit afterwards
			p := g.randNode()
			hd := g.mkHeader(p, bitsChoices[g.rng.Intn(len(bitsChoices))])
			h = *hd.BlockHash()
			g.refused = append(g.refused, hd)
		case k < 9: // random unknown
			g.rng.Read(h[:])
		default: // already marked
			for x := range m.Invalid {
				h = x
				break
			}
			if (h == Hash{}) {
				h = m.Tip.Hash
			}
		}
		if h == m.Genesis.Hash {
			return
		}
		g.e.Mark(h)
		g.shape.WriteString("M;")
	case r < gc.WSubmit+gc.WClean+gc.WSave+gc.WReload+gc.WMark+gc.WUnmark:
		for x := range m.Invalid {
			g.e.Unmark(x)
			g.shape.WriteString("U;")
			// re-submit the unmarked header if we have it (or keep it for a later retry, possibly
			// after a Save/Load, when it must be acceptable again)
			if n := m.Ever[x]; n != nil {
				if g.rng.Intn(2) == 0 {
					g.submit(n.Header, "resubmit-after-unmark")
				} else if len(g.refused) < 8 {
					g.refused = append(g.refused, n.Header)
				}
			} else {
				for _, hd := range g.refused {
					if *hd.BlockHash() == x {
						g.submit(hd, "resubmit-after-unmark")
					}
				}
			}
			break
		}
	default:
		g.e.Subscribe()
		g.shape.WriteString("b;")
	}
}

// peerReply submits what a protocol-conformant peer, whose chain shares ours up to a seeded
// height and then continues on its own, would send first in reply to our current locator.
func (g *genState) peerReply() {
	in := g.e.Insts[len(g.e.Insts)-1]
	m := in.M
	mx := locatorMaxes[g.rng.Intn(len(locatorMaxes))]
	loc := in.Snap.Locators[mx]
	if len(loc) == 0 || m.Tip.Height == 0 {
		return
	}
	chain := Chain(m.Tip)
	f := g.rng.Intn(m.Tip.Height + 1) // the peer shares heights 0..f with us
	if g.rng.Intn(3) == 0 {
		f = m.Tip.Height // same chain (or ahead of us)
	}
	match := -1
	for _, h := range loc {
		for ht := 0; ht <= f; ht++ {
			if chain[ht].Hash == h {
				match = ht
			}
		}
		if match != -1 {
			break
		}
	}
	if match == -1 {
		g.e.Stats["peer_reply_no_common_locator_hash"]++
		return
	}
	var hd *wire.BlockHeader
	note := ""
	if match < f || match < m.Tip.Height && f == m.Tip.Height {
		hd = chain[match+1].Header
		note = "peer-reply-shared-header"
	} else if match == m.Tip.Height {
		hd = g.mkHeader(m.Tip, 0x1d00ffff)
		note = "peer-reply-extends-tip"
	} else {
		hd = g.mkHeader(chain[match], bitsChoices[g.rng.Intn(len(bitsChoices))])
		note = "peer-reply-own-fork"
	}
	if match+1 <= m.Tip.Height && f == m.Tip.Height && match != m.Tip.Height-1 {
		// a peer with our whole chain must be asked from our tip's parent
		g.e.fail("C19", "same-chain-peer-replies-with-our-tip", "same-chain-reply-does-not-start-at-tip",
			fmt.Sprintf("locator(%d) first best-chain match at height %d, tip %d", mx, match, m.Tip.Height))
	}
	before := len(g.e.Trace.Ops)
	g.submit(hd, note)
	_ = before
	nin := g.e.Insts[len(g.e.Insts)-1]
	// the reply must connect to a header we hold
	if l, ok := nin.Snap.Looks[*hd.BlockHash()]; g.e.on("C19") && !nin.M.MaybePruned[hd.PrevBlock] {
		if g.e.lastClass == "unknown" {
			g.e.fail("C19", "reply-connects-to-a-header-we-hold", "peer-reply-unknown-parent/"+note,
				fmt.Sprintf("locator(%d): a peer sharing our chain up to height %d replies with a header that was refused as unknown parent", mx, f))
		}
		_ = l
		_ = ok
	}
	g.e.Stats[note]++
}

func (g *genState) genSubmit() {
	m := g.model()
	bits := bitsChoices[g.rng.Intn(len(bitsChoices))]
	if g.gc.PeerReply && g.rng.Intn(6) == 0 {
		g.peerReply()
		return
	}
	k := g.rng.Intn(100)
	switch {
	case k < 45: // race the lanes
		g.pruneLanes()
		if len(g.lanes) < 2 || (len(g.lanes) < 4 && g.rng.Intn(6) == 0) {
			// open a new lane by forking somewhere near the tip of an existing lane / the best chain
			base := m.Tip
			if len(g.lanes) > 0 && g.rng.Intn(2) == 0 {
				if n := m.Nodes[g.lanes[g.rng.Intn(len(g.lanes))]]; n != nil {
					base = n
				}
			}
			back := g.rng.Intn(4)
			for i := 0; i < back && base.Parent != nil; i++ {
				base = base.Parent
			}
			hd := g.mkHeader(base, bits)
			g.submit(hd, "new-lane")
			if n := g.model().Nodes[*hd.BlockHash()]; n != nil {
				g.lanes = append(g.lanes, n.Hash)
			}
			return
		}
		// extend the lane that is behind more often
		li := g.rng.Intn(len(g.lanes))
		if g.rng.Intn(3) > 0 {
			for i, l := range g.lanes {
				if n := m.Nodes[l]; n != nil && m.Nodes[g.lanes[li]] != nil && n.Cum.Cmp(m.Nodes[g.lanes[li]].Cum) < 0 {
					li = i
				}
			}
		}
		burst := 1 + g.rng.Intn(3)
		for i := 0; i < burst; i++ {
			n := g.model().Nodes[g.lanes[li]]
			if n == nil {
				return
			}
			hd := g.mkHeader(n, bits)
			g.submit(hd, "lane")
			if nn := g.model().Nodes[*hd.BlockHash()]; nn != nil {
				g.lanes[li] = nn.Hash
			} else {
				return
			}
		}
	case k < 60: // extend best tip
		g.submit(g.mkHeader(m.Tip, bits), "extend-tip")
	case k < 68: // extend some side tip
		tips := m.Tips()
		t := tips[g.rng.Intn(len(tips))]
		g.submit(g.mkHeader(t, bits), "extend-side-tip")
	case k < 76: // fork from any held header
		g.submit(g.mkHeader(g.randNode(), bits), "fork-anywhere")
	case k < 83: // fork exactly at / one beyond the max depth
		d := m.MaxDepth + g.rng.Intn(2)
		if g.rng.Intn(4) == 0 {
			d = m.MaxDepth + 2 + g.rng.Intn(3)
		}
		g.submit(g.mkHeader(g.nodeAtDepth(d), bits), fmt.Sprintf("fork-at-depth-%d", d))
	case k < 87:
		g.submit(g.orphan(), "orphan")
	case k < 95: // duplicate of any known header
		n := g.randNode()
		if n.Parent == nil {
			n = m.Tip
		}
		if n.Parent != nil {
			g.submit(n.Header, "duplicate")
			if g.rng.Intn(3) == 0 {
				g.submit(n.Header, "duplicate")
			}
		}
	default: // retry something refused earlier / child of it
		if len(g.refused) > 0 {
			hd := g.refused[g.rng.Intn(len(g.refused))]
			g.submit(hd, "retry-refused")
		} else {
			g.submit(g.mkHeader(m.Tip, bits), "extend-tip")
		}
	}
}

func (g *genState) pruneLanes() {
	m := g.model()
	var out []Hash
	for _, l := range g.lanes {
		if n := m.Nodes[l]; n != nil && m.Tip.Height-n.Height <= m.MaxDepth+3 {
			out = append(out, l)
		}
	}
	g.lanes = out
}

// GenResult is what one generated history produced.
type GenResult struct {
	E          *Engine
	Shape      string
	NonTrivial bool
	Forks      int
	Reorgs     int
	NonAccept  int
	Blocks     map[Hash][]Hash
}

// RunHistory generates and executes one history.
func RunHistory(ctx context.Context, rng *rand.Rand, gc GenCfg, opt Options) *GenResult {
	maxDepth := gc.MaxDepths[rng.Intn(len(gc.MaxDepths))]
	e := NewEngine(ctx, maxDepth, opt)
	g := &genState{rng: rng, e: e, gc: gc}
	if len(gc.PruneDepths) > 0 {
		g.pruneD = gc.PruneDepths[rng.Intn(len(gc.PruneDepths))]
		if g.pruneD > 0 && g.pruneD < maxDepth+2 {
			g.pruneD = maxDepth + 2
		}
	}
	e.Trace.HookDepth = g.pruneD
	base := 0
	if len(gc.BaseLens) > 0 {
		base = gc.BaseLens[rng.Intn(len(gc.BaseLens))]
	}
	if v := os.Getenv("VERIF_FORCE_BASE"); v != "" { // debugging aid
		fmt.Sscan(v, &base)
	}
	if base > 120 {
		// long base (crossing 1000-header file boundaries): built in bulk, sampled height reads
		e.Opt.HeightSel = SparseHeights
		var hs []*wire.BlockHeader
		tip := g.model().Tip
		prevHash, ts := tip.Hash, tip.Header.Timestamp
		for i := 0; i < base; i++ {
			ts += 600
			hd := &wire.BlockHeader{Version: 1, PrevBlock: prevHash, Timestamp: ts, Bits: 0x1d00ffff, Nonce: rng.Uint32()}
			rng.Read(hd.MerkleRoot[:])
			if gc.MerkleBlocks {
				hd = g.mkHeaderRaw(prevHash, ts, 0x1d00ffff)
			}
			hs = append(hs, hd)
			prevHash = *hd.BlockHash()
		}
		e.BulkExtend(hs)
		fmt.Fprintf(&g.shape, "bulk%d;", base)
	} else {
		for i := 0; i < base && !e.Failed(); i++ {
			g.submit(g.mkHeader(g.model().Tip, 0x1d00ffff), "base")
		}
	}
	if gc.EarlySave && !e.Failed() {
		e.Save()
	}
	nops := gc.MinOps + rng.Intn(gc.MaxOps-gc.MinOps+1)
	if base > 120 && nops > 14 {
		nops = 14 // every op on a long chain reads pruned heights back from the header files
	}
	for i := 0; i < nops && !e.Failed() && len(e.live()) > 0; i++ {
		g.step()
	}
	res := &GenResult{E: e, Shape: fmt.Sprintf("d%d;b%d;", maxDepth, base) + g.shape.String(),
		Forks: g.forks, Reorgs: g.reorgs, NonAccept: g.nonAccept, Blocks: g.blocks}
	res.NonTrivial = (g.forks > 0 && g.reorgs > 0) || g.nonAccept > 0
	return res
}

// ReplayTrace executes a recorded trace literally.
func ReplayTrace(ctx context.Context, tr Trace, opt Options) (*Engine, error) {
	e := NewEngine(ctx, tr.MaxDepth, opt)
	e.Trace.HookDepth = tr.HookDepth
	// a long run of base headers is replayed in bulk, exactly as it was generated
	nb := 0
	for nb < len(tr.Ops) && tr.Ops[nb].K == "submit" && tr.Ops[nb].Note == "base" {
		nb++
	}
	ops := tr.Ops
	if nb > 120 {
		var hs []*wire.BlockHeader
		for _, op := range tr.Ops[:nb] {
			hd, err := HdrFromHex(op.Hdr)
			if err != nil {
				return nil, err
			}
			hs = append(hs, hd)
		}
		e.Opt.HeightSel = SparseHeights
		e.BulkExtend(hs)
		ops = tr.Ops[nb:]
	}
	for _, op := range ops {
		if len(e.live()) == 0 {
			break
		}
		switch op.K {
		case "submit":
			hd, err := HdrFromHex(op.Hdr)
			if err != nil {
				return nil, err
			}
			oldTip := e.Insts[len(e.Insts)-1].M.Tip
			e.Submit(hd, op.Note)
			if relation(oldTip, e.Insts[len(e.Insts)-1].M.Tip) == "reorg" {
				for _, in := range e.Insts {
					in.ReorgSinceSave = true
				}
			}
		case "clean":
			e.Clean(0)
		case "cleanat":
			e.Clean(op.D)
		case "save":
			e.Save()
		case "reload":
			e.Reload(op.D, op.Twin)
		case "mark":
			h, err := bitcoin.NewHash32FromStr(op.Hash)
			if err != nil {
				return nil, err
			}
			e.Mark(*h)
		case "unmark":
			h, err := bitcoin.NewHash32FromStr(op.Hash)
			if err != nil {
				return nil, err
			}
			e.Unmark(*h)
		case "sub":
			e.Subscribe()
		}
	}
	return e, nil
}

// Minimise shrinks a trace while a finding with the same property and signature still occurs.
func Minimise(ctx context.Context, tr Trace, opt Options, prop, sig string, budget int) Trace {
	has := func(t Trace) bool {
		e, err := ReplayTrace(ctx, t, opt)
		if err != nil {
			return false
		}
		for _, f := range e.Findings {
			if f.Prop == prop && f.Sig == sig {
				return true
			}
		}
		return false
	}
	cur := tr
	// cut the tail after the failing op first
	if e, err := ReplayTrace(ctx, cur, opt); err == nil {
		for _, f := range e.Findings {
			if f.Prop == prop && f.Sig == sig && f.OpIdx+1 < len(cur.Ops) {
				cur.Ops = append([]Op(nil), cur.Ops[:f.OpIdx+1]...)
				break
			}
		}
	}
	if !has(cur) {
		return tr
	}
	tries := 0
	keep := 0 // a bulk base prefix is kept as it is
	for keep < len(cur.Ops) && cur.Ops[keep].K == "submit" && cur.Ops[keep].Note == "base" {
		keep++
	}
	if keep <= 120 {
		keep = 0
	} else if budget > 10 {
		budget = 10 // each replay of a long chain costs seconds
	}
	chunk := (len(cur.Ops) - keep) / 2
	for chunk >= 1 && tries < budget {
		removed := false
		for start := keep; start+chunk <= len(cur.Ops) && tries < budget; {
			cand := Trace{MaxDepth: cur.MaxDepth, HookDepth: cur.HookDepth}
			cand.Ops = append(cand.Ops, cur.Ops[:start]...)
			cand.Ops = append(cand.Ops, cur.Ops[start+chunk:]...)
			tries++
			if len(cand.Ops) > 0 && has(cand) {
				cur = cand
				removed = true
			} else {
				start += chunk
			}
		}
		if !removed {
			chunk /= 2
		}
	}
	return cur
}
