package hdr

import (
	"context"
	"fmt"
	"reflect"
	"sort"

	"github.com/pkg/errors"
	"github.com/tokenized/bitcoin_reader/headers"
	"github.com/tokenized/pkg/wire"
)

// Look is what every by-hash lookup API answered for one hash.
type Look struct {
	HH     int    // HashHeight
	CHH    int    // CheckHeader height
	CHL    bool   // CheckHeader longest flag
	CHE    string // CheckHeader error class
	GHH    int
	GHL    bool
	GHE    string
	GHHash Hash // hash of the header GetHeader returned
	PHH    int  // PreviousHash height
	PHHash Hash
	PHNil  bool
	Panic  string
}

// Snap is the observable state of a repository through every exported read API.
type Snap struct {
	Height   int
	Last     Hash
	LastTime uint32
	Work     string
	Hashes   []Hash   // Hash(h), h in [0,Height]
	HashErr  []string // error class per height ("" ok)
	HdrHash  []Hash   // hash of Header(h)
	HdrPrev  []Hash   // Header(h).PrevBlock
	HdrErr   []string
	Beyond   string // class of Hash(Height+1)
	BeyondH  string // class of Header(Height+1)
	Looks    map[Hash]Look
	Ranges   map[string][]Hash // GetHeaders(start,max) → hashes
	Locators map[int][]Hash
	LocErr   map[int]string
	Panic    string
}

func errClass(err error) string {
	if err == nil {
		return ""
	}
	switch errors.Cause(err) {
	case headers.ErrUnknownHeader:
		return "unknown"
	case headers.ErrHeaderMarkedInvalid:
		return "invalid"
	case headers.ErrBeyondMaxBranchDepth:
		return "depth"
	case headers.ErrWrongChain:
		return "wrongchain"
	case headers.ErrNotEnoughWork, headers.ErrInvalidTarget:
		return "badwork"
	case headers.ErrHeightBeyondTip:
		return "beyondtip"
	case headers.ErrHeaderNotAvailable:
		return "notavailable"
	}
	return "other"
}

func safe(f func()) (p string) {
	defer func() {
		if r := recover(); r != nil {
			p = fmt.Sprintf("%v", r)
		}
	}()
	f()
	return ""
}

var locatorMaxes = []int{1, 2, 3, 10, 50}

// TakeSnap reads every exported read API. keys are the hashes to look up; ranges are
// (start,max) pairs for GetHeaders.
func TakeSnap(ctx context.Context, repo *headers.Repository, keys []Hash, ranges [][2]int,
	sel func(h, tip int) bool) *Snap {
	s := &Snap{Looks: map[Hash]Look{}, Ranges: map[string][]Hash{}, Locators: map[int][]Hash{},
		LocErr: map[int]string{}}
	s.Panic = safe(func() {
		s.Height = repo.Height()
		s.Last = repo.LastHash()
		s.LastTime = repo.LastTime()
		s.Work = repo.AccumulatedWork().Text(16)
		n := s.Height + 1
		if n < 0 {
			n = 0
		}
		s.Hashes = make([]Hash, n)
		s.HashErr = make([]string, n)
		s.HdrHash = make([]Hash, n)
		s.HdrPrev = make([]Hash, n)
		s.HdrErr = make([]string, n)
		for h := 0; h < n; h++ {
			if sel != nil && !sel(h, s.Height) {
				s.HashErr[h] = "skip"
				s.HdrErr[h] = "skip"
				continue
			}
			hh, err := repo.Hash(ctx, h)
			if err != nil {
				s.HashErr[h] = "err:" + errClass(err)
			} else if hh == nil {
				s.HashErr[h] = "nil"
			} else {
				s.Hashes[h] = *hh
			}
			hd, err := repo.Header(ctx, h)
			if err != nil {
				s.HdrErr[h] = "err:" + errClass(err)
			} else if hd == nil {
				s.HdrErr[h] = "nil"
			} else {
				s.HdrHash[h] = *hd.BlockHash()
				s.HdrPrev[h] = hd.PrevBlock
			}
		}
		_, err := repo.Hash(ctx, s.Height+1)
		s.Beyond = errClass(err)
		_, err = repo.Header(ctx, s.Height+1)
		s.BeyondH = errClass(err)
	})
	if s.Panic != "" {
		return s
	}
	for _, k := range keys {
		k := k
		var l Look
		l.Panic = safe(func() {
			l.HH = repo.HashHeight(k)
			var err error
			l.CHH, l.CHL, err = repo.CheckHeader(ctx, k)
			l.CHE = errClass(err)
			var hd *wire.BlockHeader
			hd, l.GHH, l.GHL, err = repo.GetHeader(ctx, k)
			l.GHE = errClass(err)
			if hd != nil {
				l.GHHash = *hd.BlockHash()
			}
			ph, phh := repo.PreviousHash(k)
			l.PHH = phh
			if ph == nil {
				l.PHNil = true
			} else {
				l.PHHash = *ph
			}
		})
		s.Looks[k] = l
	}
	for _, r := range ranges {
		r := r
		key := fmt.Sprintf("%d+%d", r[0], r[1])
		p := safe(func() {
			hs, err := repo.GetHeaders(ctx, r[0], r[1])
			if err != nil {
				s.Ranges[key] = nil
				s.Ranges[key+"!err"] = []Hash{}
				return
			}
			out := make([]Hash, len(hs))
			for i, h := range hs {
				out[i] = *h.BlockHash()
			}
			s.Ranges[key] = out
		})
		if p != "" {
			s.Ranges[key+"!panic"] = []Hash{}
		}
	}
	for _, mx := range locatorMaxes {
		mx := mx
		p := safe(func() {
			l, err := repo.GetLocatorHashes(ctx, mx)
			if err != nil {
				s.LocErr[mx] = errClass(err)
			}
			s.Locators[mx] = l
		})
		if p != "" {
			s.LocErr[mx] = "panic:" + p
		}
	}
	return s
}

// DiffSnap returns (category, description) of the first difference between two snapshots, or
// ("",""). mode: "all" compares everything, "nolocators" everything but locators, "c10" only what
// C10 promises (tip, header at every height, height and best-chain status per header).
func DiffSnap(a, b *Snap, mode string) (string, string) {
	if a.Panic != b.Panic {
		return "panic", fmt.Sprintf("panic %q vs %q", a.Panic, b.Panic)
	}
	if a.Height != b.Height {
		return "tip-height", fmt.Sprintf("Height %d vs %d", a.Height, b.Height)
	}
	if a.Last != b.Last {
		return "tip-hash", fmt.Sprintf("LastHash %s vs %s", a.Last, b.Last)
	}
	if a.Work != b.Work {
		return "tip-work", fmt.Sprintf("AccumulatedWork %s vs %s", a.Work, b.Work)
	}
	if a.LastTime != b.LastTime {
		return "tip-time", fmt.Sprintf("LastTime %d vs %d", a.LastTime, b.LastTime)
	}
	for h := range a.Hashes {
		if a.HashErr[h] == "skip" || b.HashErr[h] == "skip" {
			continue
		}
		if a.Hashes[h] != b.Hashes[h] || a.HashErr[h] != b.HashErr[h] {
			return "hash-at-height", fmt.Sprintf("Hash(%d) %s%s vs %s%s", h, a.Hashes[h], a.HashErr[h], b.Hashes[h], b.HashErr[h])
		}
		if a.HdrHash[h] != b.HdrHash[h] || a.HdrErr[h] != b.HdrErr[h] {
			return "header-at-height", fmt.Sprintf("Header(%d) %s%s vs %s%s", h, a.HdrHash[h], a.HdrErr[h], b.HdrHash[h], b.HdrErr[h])
		}
	}
	if a.Beyond != b.Beyond || a.BeyondH != b.BeyondH {
		return "beyond-tip", fmt.Sprintf("beyond-tip class %s/%s vs %s/%s", a.Beyond, a.BeyondH, b.Beyond, b.BeyondH)
	}
	var keys []Hash
	for k := range a.Looks {
		keys = append(keys, k)
	}
	sort.Slice(keys, func(i, j int) bool { return keys[i].String() < keys[j].String() })
	for _, k := range keys {
		la := a.Looks[k]
		lb, ok := b.Looks[k]
		if !ok {
			continue
		}
		if mode == "c10" {
			la.PHH, la.PHHash, la.PHNil = 0, Hash{}, false
			lb.PHH, lb.PHHash, lb.PHNil = 0, Hash{}, false
		}
		if la != lb {
			cat := "lookup"
			switch {
			case la.HH != lb.HH:
				cat = fmt.Sprintf("hashheight/%s", deltaStr(la.HH, lb.HH))
			case la.CHE != lb.CHE || la.CHH != lb.CHH:
				cat = "checkheader-height"
			case la.CHL != lb.CHL:
				cat = fmt.Sprintf("checkheader-flag/%v-to-%v", la.CHL, lb.CHL)
			case la.GHE != lb.GHE || la.GHH != lb.GHH || la.GHHash != lb.GHHash:
				cat = "getheader"
			case la.GHL != lb.GHL:
				cat = fmt.Sprintf("getheader-flag/%v-to-%v", la.GHL, lb.GHL)
			default:
				cat = "previoushash"
			}
			return cat, fmt.Sprintf("lookups of %s: %+v vs %+v", k, la, lb)
		}
	}
	// range queries are by-height retrieval too (C10: history dropped from memory stays retrievable)
	for k, ra := range a.Ranges {
		rb, ok := b.Ranges[k]
		if !ok {
			continue
		}
		if !reflect.DeepEqual(ra, rb) {
			return "range", fmt.Sprintf("GetHeaders(%s) differs: %d vs %d headers", k, len(ra), len(rb))
		}
	}
	if mode == "c10" {
		return "", ""
	}
	if mode == "all" {
		for _, mx := range locatorMaxes {
			if !reflect.DeepEqual(a.Locators[mx], b.Locators[mx]) || a.LocErr[mx] != b.LocErr[mx] {
				return "locator", fmt.Sprintf("GetLocatorHashes(%d) differs", mx)
			}
		}
	}
	return "", ""
}

func deltaStr(a, b int) string {
	if a == -1 || b == -1 {
		return "known-unknown"
	}
	d := b - a
	if d > 3 {
		d = 3
	}
	if d < -3 {
		d = -3
	}
	return fmt.Sprintf("delta=%d", d)
}

// Safe runs f and returns the panic value as text ("" if none).
func Safe(f func()) string { return safe(f) }
