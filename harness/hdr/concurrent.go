package hdr

import (
	"fmt"
	"math/big"
	"runtime"
	"sync"
	"sync/atomic"

	"verifharness/common"

	"github.com/tokenized/bitcoin_reader/headers"
	"github.com/tokenized/pkg/bitcoin"
	"github.com/tokenized/pkg/wire"
)

// RunC01Concurrent: several peers submit overlapping parts of one header tree concurrently
// (out of order, with retry until the parent is known) while a monitor reads the tip. The final
// state and every observed tip are held to the reference model. Meant to run under -race.
func RunC01Concurrent(tier string, seed int64) int {
	ctx := common.QuietCtx()
	run := common.NewRun("C01", tier, seed, "exploration")
	run.Phase = "race"
	run.MinDistinct = 2
	run.Rule = "2-8 goroutines submit overlapping, shuffled parts of one generated header tree (orphans retried until the parent is known) while a monitor goroutine reads the tip; final tip/ancestry vs reference model; observed accumulated work must never decrease; run under the race detector"
	n := 300
	if tier == "thorough" {
		n = 3000
	}
	var observed int64
	common.ParallelFor(n, runtime.NumCPU()/2, func(ci int) {
		rng := common.Rng(seed, int64(900000+ci))
		cfg := &headers.Config{Network: bitcoin.MainNet, MaxBranchDepth: 100000}
		repo := headers.NewRepository(cfg, common.NewMemStore())
		repo.DisableDifficulty()
		repo.InitializeWithGenesis()
		m := NewModel(MainGenesis(), 100000)
		// generate the tree in the model
		nh := 20 + rng.Intn(120)
		var all []*wire.BlockHeader
		nodes := []*Node{m.Genesis}
		for i := 0; i < nh; i++ {
			var p *Node
			if rng.Intn(3) == 0 {
				p = nodes[rng.Intn(len(nodes))]
			} else {
				p = nodes[len(nodes)-1-rng.Intn(min(3, len(nodes)))]
			}
			hd := &wire.BlockHeader{Version: 1, PrevBlock: p.Hash, Timestamp: p.Header.Timestamp + 600,
				Bits: bitsChoices[rng.Intn(len(bitsChoices))], Nonce: rng.Uint32()}
			rng.Read(hd.MerkleRoot[:])
			nn := m.Accept(hd)
			nodes = append(nodes, nn)
			all = append(all, hd)
		}
		k := 2 + rng.Intn(7)
		var wg sync.WaitGroup
		stop := make(chan struct{})
		var monViol atomic.Value
		// monitor
		var mwg sync.WaitGroup
		mwg.Add(1)
		go func() {
			defer mwg.Done()
			last := new(big.Int)
			for {
				select {
				case <-stop:
					return
				default:
				}
				w := repo.AccumulatedWork()
				atomic.AddInt64(&observed, 1)
				if w.Cmp(last) < 0 {
					monViol.Store(fmt.Sprintf("accumulated work went from %s to %s during concurrent submission", last.Text(16), w.Text(16)))
				}
				last = new(big.Int).Set(w)
				h := repo.Height()
				if hh, err := repo.Hash(ctx, h); err == nil && hh != nil {
					_ = repo.HashHeight(*hh)
				}
				runtime.Gosched()
			}
		}()
		var failed atomic.Value
		// Retrying is decided on logical progress, not on a number of rounds: the last peer holds
		// every header, so a full round of it in which nothing it holds was accepted while no
		// other peer's submission returned nil either means some header whose parent is accepted
		// was refused as unknown. The other peers (whose subsets may lack parents) simply retry
		// until the last peer is done, then every header they still hold must be known.
		var progress int64 // submissions that returned nil, all peers
		var fullDone, abort int32
		for g := 0; g < k; g++ {
			// each peer gets a random ~60% subset, last peer gets everything (so all arrive)
			var mine []*wire.BlockHeader
			for _, hd := range all {
				if g == k-1 || rng.Intn(10) < 6 {
					mine = append(mine, hd)
				}
			}
			rng.Shuffle(len(mine), func(i, j int) { mine[i], mine[j] = mine[j], mine[i] })
			wg.Add(1)
			go func(mine []*wire.BlockHeader, full bool) {
				defer wg.Done()
				if full {
					defer atomic.StoreInt32(&fullDone, 1)
				}
				pending := mine
				for len(pending) > 0 && atomic.LoadInt32(&abort) == 0 {
					final := !full && atomic.LoadInt32(&fullDone) == 1
					before := atomic.LoadInt64(&progress)
					var next []*wire.BlockHeader
					for _, hd := range pending {
						var err error
						pan := safe(func() { err = repo.ProcessHeader(ctx, hd) })
						if pan != "" {
							failed.Store("panic: " + pan)
							atomic.StoreInt32(&abort, 1)
							return
						}
						if err != nil {
							if errClass(err) == "unknown" {
								next = append(next, hd)
								continue
							}
							failed.Store(fmt.Sprintf("unexpected answer %q (%v)", errClass(err), err))
							atomic.StoreInt32(&abort, 1)
							return
						}
						atomic.AddInt64(&progress, 1)
					}
					if len(next) == len(pending) {
						if final {
							failed.Store(fmt.Sprintf("%d headers refused as unknown after the peer holding every header had all of them accepted", len(next)))
							atomic.StoreInt32(&abort, 1)
							return
						}
						if full && atomic.LoadInt64(&progress) == before {
							failed.Store(fmt.Sprintf("%d headers all refused as unknown in a round during which no submission of any peer was accepted (one of them has an accepted parent)", len(next)))
							atomic.StoreInt32(&abort, 1)
							return
						}
						runtime.Gosched()
					}
					pending = next
				}
			}(mine, g == k-1)
		}
		wg.Wait()
		close(stop)
		mwg.Wait()
		run.Eval(1)
		run.DistinctStr(fmt.Sprintf("conc/%d/%d/%d", nh, k, ci))
		w := map[string]interface{}{"kind": "concurrent-submitters", "headers": nh, "goroutines": k, "case": ci, "seed": seed}
		if ci < 2 {
			run.Sample(w)
		}
		if v := failed.Load(); v != nil {
			run.Violate(common.Violation{Clause: "every-arrival-order-accepted", Signature: "concurrent-submission-failed", Detail: v.(string), Witness: w})
			return
		}
		if v := monViol.Load(); v != nil {
			run.Violate(common.Violation{Clause: "tip-work-monotone", Signature: "tip-work-decreased-during-submission", Detail: v.(string), Witness: w})
			return
		}
		// final state vs model
		var keys []Hash
		for h := range m.Nodes {
			keys = append(keys, h)
		}
		s := TakeSnap(ctx, repo, keys, nil, nil)
		tips := m.MaxWorkTips()
		var tip *Node
		for _, t := range tips {
			if t.Hash == s.Last {
				tip = t
			}
		}
		if tip == nil {
			run.Violate(common.Violation{Clause: "tip-is-max-work", Signature: "tip-not-max-work/after=concurrent-submission",
				Detail: fmt.Sprintf("reported tip %s work %s; max work %s", s.Last, s.Work, tips[0].Cum.Text(16)), Witness: w})
			return
		}
		chain := Chain(tip)
		if s.Height != tip.Height || s.Work != tip.Cum.Text(16) {
			run.Violate(common.Violation{Clause: "tip-height-and-work", Signature: "tip-fields-wrong/after=concurrent-submission", Witness: w})
			return
		}
		for h := range chain {
			if s.Hashes[h] != chain[h].Hash || s.HdrHash[h] != chain[h].Hash {
				run.Violate(common.Violation{Clause: "hash-at-height-is-tip-ancestry", Signature: "hash-at-height-wrong/after=concurrent-submission",
					Detail: fmt.Sprintf("height %d", h), Witness: w})
				return
			}
		}
		for h, nd := range m.Nodes {
			if s.Looks[h].HH != nd.Height {
				run.Violate(common.Violation{Clause: "every-arrival-order-accepted", Signature: "header-missing-after-concurrent-submission",
					Detail: fmt.Sprintf("header %s height %d reported %d", h, nd.Height, s.Looks[h].HH), Witness: w})
				return
			}
		}
	})
	run.Extra("monitor_tip_reads", observed)
	return run.Finish()
}
