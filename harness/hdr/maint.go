package hdr

import (
	"fmt"
	"math/big"
	"regexp"
	"strings"

	"verifharness/common"

	"github.com/tokenized/bitcoin_reader/headers"
)

const prodPruneDepth = 10000

var hexRe = regexp.MustCompile(`[0-9a-f]{16,}`)

func (e *Engine) live() []*Inst {
	var out []*Inst
	for _, in := range e.Insts {
		if !in.Tainted {
			out = append(out, in)
		}
	}
	return out
}

func (e *Engine) markPrunedBest(in *Inst, depth int) {
	m := in.M
	for _, n := range Chain(m.Tip) {
		if n.Height < m.Tip.Height-depth {
			m.MaybePruned[n.Hash] = true
		}
	}
}

// Clean runs the real Clean; with d > 0 it is followed by the repository's own prune step at
// depth d (verif hook).
func (e *Engine) Clean(d int) {
	if d > 0 {
		e.Trace.Ops = append(e.Trace.Ops, Op{K: "cleanat", D: d})
	} else {
		e.Trace.Ops = append(e.Trace.Ops, Op{K: "clean"})
	}
	e.opIdx = len(e.Trace.Ops) - 1
	for _, in := range e.live() {
		before := in.Snap
		var img0 map[string][]byte
		if e.Opt.CrashPoints {
			img0 = in.Store.Image()
			in.Store.StartJournal()
		}
		var err error
		pan := safe(func() { err = in.Repo.Clean(e.Ctx) })
		var journal []common.JournalOp
		if e.Opt.CrashPoints {
			journal = in.Store.StopJournal()
		}
		if pan != "" || err != nil {
			e.fail("C10", "clean-completes", "clean-fails/"+errKind(pan, err),
				fmt.Sprintf("Clean failed: panic=%q err=%v", pan, err))
			e.fail("C01", "maintenance-completes", "clean-fails/"+errKind(pan, err),
				fmt.Sprintf("Clean failed: panic=%q err=%v", pan, err))
			if len(in.M.Invalid) > 0 {
				e.fail("C17", "marking-survives-save-load", "clean-fails-after-marking/"+errKind(pan, err), fmt.Sprintf("Clean failed after invalid marking: panic=%q err=%v", pan, err))
			}
			in.Tainted = true
			continue
		}
		if d > 0 {
			pan = safe(func() { err = in.Repo.VerifPrune(e.Ctx, d) })
			if pan != "" || err != nil {
				e.fail("C10", "clean-completes", "prune-fails/"+errKind(pan, err),
					fmt.Sprintf("prune(%d) failed: panic=%q err=%v", d, pan, err))
				in.Tainted = true
				continue
			}
		}
		e.consolidateBranches(in)
		e.markPrunedBest(in, prodPruneDepth)
		if d > 0 {
			e.markPrunedBest(in, d)
			in.M.HookPruned = true
		}
		after := e.snap(in)
		in.Snap = after
		e.Stats["clean"]++
		if cat, det := DiffSnap(before, after, "c10"); cat != "" {
			e.fail("C10", "clean-changes-nothing", "clean-changed/"+cat,
				fmt.Sprintf("Clean (depth %d) changed what is reported: %s", d, det))
		}
		if after.Panic != "" {
			in.Tainted = true
			e.fail("C10", "clean-changes-nothing", "read-api-panic-after-clean", after.Panic)
			continue
		}
		e.checkState(in, after, "clean")
		e.drainQuiet(in, "clean")
		if e.Opt.CrashPoints {
			e.crashEnum(in, img0, journal, "clean")
		}
		in.SavedTip = in.M.Tip
	}
}

func errKind(pan string, err error) string {
	if pan != "" {
		return "panic"
	}
	s := err.Error()
	if i := strings.Index(s, ":"); i > 0 {
		s = s[:i]
	}
	s = hexRe.ReplaceAllString(s, "<hash>")
	return strings.ReplaceAll(strings.TrimSpace(s), " ", "-")
}

func (e *Engine) Save() {
	e.Trace.Ops = append(e.Trace.Ops, Op{K: "save"})
	e.opIdx = len(e.Trace.Ops) - 1
	for _, in := range e.live() {
		e.saveOne(in, true)
	}
}

func (e *Engine) saveOne(in *Inst, enumerate bool) bool {
	before := in.Snap
	var img0 map[string][]byte
	if e.Opt.CrashPoints && enumerate {
		img0 = in.Store.Image()
		in.Store.StartJournal()
	}
	var err error
	pan := safe(func() { err = in.Repo.Save(e.Ctx) })
	var journal []common.JournalOp
	if e.Opt.CrashPoints && enumerate {
		journal = in.Store.StopJournal()
	}
	if pan != "" || err != nil {
		e.fail("C11", "save-completes", "save-fails/"+errKind(pan, err),
			fmt.Sprintf("Save failed: panic=%q err=%v", pan, err))
		e.fail("C01", "maintenance-completes", "save-fails/"+errKind(pan, err),
			fmt.Sprintf("Save failed: panic=%q err=%v", pan, err))
		if len(in.M.Invalid) > 0 {
			e.fail("C17", "marking-survives-save-load", "save-fails-after-marking/"+errKind(pan, err), fmt.Sprintf("Save failed after invalid marking: panic=%q err=%v", pan, err))
		}
		in.Tainted = true
		return false
	}
	e.Stats["save"]++
	e.consolidateBranches(in)
	after := e.snap(in)
	in.Snap = after
	if cat, det := DiffSnap(before, after, "nolocators"); cat != "" {
		e.fail("C08", "save-is-read-only", "save-changed/"+cat, "Save changed what is reported: "+det)
	}
	e.checkState(in, after, "save")
	if e.Opt.CrashPoints && enumerate {
		e.crashEnum(in, img0, journal, "save")
	}
	in.SavedWork = new(big.Int).Set(in.M.Tip.Cum)
	in.SavedTip = in.M.Tip
	in.ReorgSinceSave = false
	return true
}

// Reload saves the newest instance, loads a fresh repository from a copy of its storage and
// continues on the loaded one (and on the original too when twin is set).
func (e *Engine) Reload(d int, twin bool) {
	e.Trace.Ops = append(e.Trace.Ops, Op{K: "reload", D: d, Twin: twin})
	e.opIdx = len(e.Trace.Ops) - 1
	lv := e.live()
	if len(lv) == 0 {
		return
	}
	src := lv[len(lv)-1]
	if !e.saveOne(src, true) {
		return
	}
	st := src.Store.Clone()
	repo := headers.NewRepository(e.Cfg, st)
	repo.DisableDifficulty()
	var err error
	depth := d
	pan := safe(func() {
		if d > 0 {
			err = repo.VerifLoad(e.Ctx, d)
		} else {
			depth = prodPruneDepth
			err = repo.Load(e.Ctx)
		}
	})
	e.Stats["reload"]++
	if pan != "" || err != nil {
		e.fail("C11", "load-of-saved-state-succeeds", "load-fails/"+errKind(pan, err),
			fmt.Sprintf("Load of what Save wrote failed: panic=%q err=%v", pan, err))
		e.fail("C01", "maintenance-completes", "load-fails/"+errKind(pan, err),
			fmt.Sprintf("Load of what Save wrote failed: panic=%q err=%v", pan, err))
		return
	}
	nm := src.M.Clone()
	if d > 0 {
		nm.HookPruned = true
	}
	// what a Load may legitimately not restore / not keep in memory
	P := nm.Tip.Height - depth
	for _, n := range nm.Nodes {
		if nm.OnBest(n) {
			if n.Height < P {
				nm.MaybePruned[n.Hash] = true
			}
			continue
		}
		low := n
		for a := n; a != nil && !nm.OnBest(a); a = a.Parent {
			low = a
		}
		// a side branch is certainly restored only if its fork point is itself retained in memory
		if low.Height <= P {
			nm.MaybeDropped[n.Hash] = true
		}
	}
	ni := &Inst{Name: fmt.Sprintf("loaded%d", e.Stats["reload"]), Repo: repo, Store: st, M: nm,
		SavedWork: new(big.Int).Set(src.SavedWork), BI: cloneBI(e.bi(src)), SavedTip: nm.Tip}
	ni.Snap = e.snap(ni)

	// C11: loaded reports the same as the original
	a, b := src.Snap, ni.Snap
	if b.Panic != "" {
		e.fail("C11", "loaded-reports-same", "read-api-panic-after-load", b.Panic)
		return
	}
	kind := "consolidated"
	if e.Stats["clean"] == 0 {
		kind = "never-cleaned"
	}
	_ = kind
	tie := false
	if a.Work == b.Work && a.Last != b.Last {
		// a tie in work: the loaded repository may report the other tied tip
		if t := nm.Nodes[b.Last]; t != nil && t.Cum.Cmp(nm.Tip.Cum) == 0 {
			nm.Tip = t
			nm.TwinDiverged = true
			src.M.TwinDiverged = true
			e.Stats["load_tie_break_differs"]++
			tie = true
			// C11 says "the same tip": which of two exactly tied tips a running repository reports is
			// free (C01), but Save followed by Load must not change the choice
			e.fail("C11", "same-tip", "loaded-tip-differs/other-tip-of-equal-work",
				fmt.Sprintf("original tip %s, loaded tip %s, both with work %s", a.Last, b.Last, a.Work))
		}
	}
	if tie {
		// nothing to compare height by height; checkState below holds the loaded chain to the model
	} else if a.Last != b.Last || a.Height != b.Height || a.Work != b.Work {
		e.fail("C11", "same-tip", fmt.Sprintf("loaded-tip-differs/%s", tipDiffKind(src, a, b)),
			fmt.Sprintf("original tip %s h=%d work=%s; loaded tip %s h=%d work=%s", a.Last, a.Height, a.Work, b.Last, b.Height, b.Work))
		e.fail("C01", "tip-is-max-work", "tip-not-max-work/after=load", fmt.Sprintf("loaded tip %s work %s, saved tip %s work %s", b.Last, b.Work, a.Last, a.Work))
	} else {
		for h := range a.Hashes {
			if a.HashErr[h] == "skip" || b.HashErr[h] == "skip" {
				continue
			}
			if a.Hashes[h] != b.Hashes[h] || b.HashErr[h] != a.HashErr[h] || a.HdrHash[h] != b.HdrHash[h] || a.HdrErr[h] != b.HdrErr[h] {
				e.fail("C11", "same-best-chain-at-every-height", "loaded-chain-differs/"+errOrWrong(b.HashErr[h]),
					fmt.Sprintf("height %d: original %s%s, loaded %s%s", h, a.Hashes[h], a.HashErr[h], b.Hashes[h], b.HashErr[h]))
				break
			}
		}
		for h, n := range nm.Nodes {
			la, lb := a.Looks[h], b.Looks[h]
			if nm.MaybeDropped[h] {
				continue
			}
			where := "side"
			if nm.OnBest(n) {
				where = "best"
			}
			if la.HH == n.Height && lb.HH != la.HH {
				e.fail("C11", "same-height-per-header", fmt.Sprintf("loaded-hashheight/%s/%s", deltaStr(la.HH, lb.HH), where),
					fmt.Sprintf("header %s (h=%d, %s chain): original HashHeight %d, loaded %d", h, n.Height, where, la.HH, lb.HH))
				break
			}
			if la.CHE == "" && la.CHH == n.Height && la.CHL == nm.OnBest(n) && (lb.CHE != "" || lb.CHH != la.CHH || lb.CHL != la.CHL) {
				e.fail("C11", "same-best-chain-status-per-header", fmt.Sprintf("loaded-checkheader/%s/flag=%v-to-%v/err=%s", where, la.CHL, lb.CHL, lb.CHE),
					fmt.Sprintf("header %s (h=%d): original CheckHeader (%d,%v), loaded (%d,%v,%s)", h, n.Height, la.CHH, la.CHL, lb.CHH, lb.CHL, lb.CHE))
				break
			}
			if la.GHE == "" && la.GHHash == h && (lb.GHE != "" || lb.GHHash != h || lb.GHH != la.GHH) && !nm.MaybePruned[h] {
				e.fail("C11", "retrievable-before-retrievable-after", fmt.Sprintf("loaded-getheader/%s/err=%s", where, lb.GHE),
					fmt.Sprintf("header %s (h=%d): retrievable before Save/Load, loaded GetHeader err=%q height=%d", h, n.Height, lb.GHE, lb.GHH))
				break
			}
		}
	}
	e.checkState(ni, ni.Snap, "load")
	if twin {
		e.Insts = []*Inst{src, ni}
	} else {
		e.Insts = []*Inst{ni}
	}
}

func tipDiffKind(src *Inst, a, b *Snap) string {
	var aw, bw big.Int
	aw.SetString(a.Work, 16)
	bw.SetString(b.Work, 16)
	switch bw.Cmp(&aw) {
	case -1:
		return "loaded-lighter"
	case 1:
		return "loaded-heavier"
	}
	return "same-work-other-tip"
}

func cloneBI(b *branchInfo) *branchInfo {
	c := &branchInfo{ids: map[Hash]int{}, parent: map[int]int{}, next: b.next}
	for k, v := range b.ids {
		c.ids[k] = v
	}
	for k, v := range b.parent {
		c.parent[k] = v
	}
	return c
}

// Mark marks a hash invalid on every live instance.
func (e *Engine) Mark(h Hash) {
	e.Trace.Ops = append(e.Trace.Ops, Op{K: "mark", Hash: h.String()})
	e.opIdx = len(e.Trace.Ops) - 1
	if e.everMarked == nil {
		e.everMarked = map[Hash]bool{}
	}
	e.everMarked[h] = true
	for _, in := range e.live() {
		m := in.M
		before := in.Snap
		n := m.Nodes[h]
		already := m.Invalid[h]
		var err error
		pan := safe(func() { err = in.Repo.MarkHeaderInvalid(e.Ctx, h) })
		kind := "unknown-hash"
		if n != nil {
			kind = "side"
			if m.OnBest(n) {
				kind = "best"
			}
			if n == m.Genesis {
				kind = "genesis"
			}
		}
		if already {
			kind = "already-marked/" + kind
		}
		prunedTarget := n != nil && n != m.Genesis && !already &&
			(m.MaybePruned[h] || (n.Parent != nil && m.MaybePruned[n.Parent.Hash]))
		if prunedTarget {
			kind = "at-or-below-memory-floor/" + kind
		}
		e.Stats["mark_"+kind]++
		if pan != "" {
			e.fail("C17", "marking-never-crashes", "mark-panic/"+kind, "MarkHeaderInvalid panicked: "+pan)
			in.Tainted = true
			continue
		}
		if err != nil {
			e.fail("C17", "marking-succeeds", "mark-error/"+kind+"/"+errKind("", err), fmt.Sprintf("MarkHeaderInvalid(%s): %v", h, err))
			in.Tainted = true
			continue
		}
		m.Invalid[h] = true
		if n != nil && n != m.Genesis {
			m.Remove(n)
			if pp := n.Parent; pp != nil && len(m.LiveChildren(pp)) > 0 {
				if b := e.bi(in); m.HookPruned || b.ids[n.Hash] == b.ids[pp.Hash] {
					if m.TrimTip == nil {
						m.TrimTip = map[Hash]bool{}
					}
					m.TrimTip[pp.Hash] = true
				}
			}
		}
		after := e.snap(in)
		in.Snap = after
		if after.Panic != "" {
			e.fail("C17", "marking-never-crashes", "read-api-panic-after-mark/"+kind, after.Panic)
			in.Tainted = true
			continue
		}
		// best chain falls back to the heaviest remaining accepted chain
		tips := m.MaxWorkTips()
		var tipNode *Node
		for _, t := range tips {
			if t.Hash == after.Last {
				tipNode = t
			}
		}
		if tipNode == nil && anyDropped(m, tips) {
			// the heaviest remaining chain in the model ends in a side branch that a Load may
			// legitimately have dropped from memory: the repository may then fall back to the
			// heaviest chain among the headers it certainly still holds; that resolves which case
			// it was, but this instance is not followed further
			for _, t := range maxWorkTipsHeldForSure(m) {
				if t.Hash == after.Last {
					tipNode = t
				}
			}
			if tipNode != nil {
				e.Stats["mark_tip_is_heaviest_without_maybe_dropped_branches"]++
				m.Tip = tipNode
				in.Tainted = true
				continue
			}
		}
		if tipNode == nil {
			what := "still-contains-marked"
			if _, gone := m.Nodes[after.Last]; gone {
				what = "not-heaviest-remaining"
			}
			e.fail("C17", "best-chain-falls-back-to-heaviest-remaining", "tip-after-mark/"+what+"/"+kind,
				fmt.Sprintf("after marking %s (%s): reported tip %s h=%d; heaviest remaining tip %s h=%d", h, kind, after.Last, after.Height, tips[0].Hash, tips[0].Height))
			in.Tainted = true
			continue
		}
		m.Tip = tipNode
		if prunedTarget {
			in.Tainted = true
			continue
		}
		if n == nil || already {
			if cat, det := DiffSnap(before, after, "all"); cat != "" {
				e.fail("C17", "marking-unknown-hash-only-preempts", "mark-noop-changed-state/"+kind+"/"+cat, det)
			}
		}
		e.checkState(in, after, "mark:"+kind)
	}
}

func (e *Engine) Unmark(h Hash) {
	e.Trace.Ops = append(e.Trace.Ops, Op{K: "unmark", Hash: h.String()})
	e.opIdx = len(e.Trace.Ops) - 1
	for _, in := range e.live() {
		before := in.Snap
		var err error
		pan := safe(func() { err = in.Repo.MarkHeaderNotInvalid(e.Ctx, h) })
		if pan != "" || err != nil {
			e.fail("C17", "unmarking-succeeds", "unmark-fails/"+errKind(pan, err), fmt.Sprintf("panic=%q err=%v", pan, err))
			in.Tainted = true
			continue
		}
		delete(in.M.Invalid, h)
		after := e.snap(in)
		in.Snap = after
		if cat, det := DiffSnap(before, after, "all"); cat != "" {
			e.fail("C17", "unmarking-changes-no-reported-state", "unmark-changed-state/"+cat, det)
		}
		e.Stats["unmark"]++
	}
}

// ---- C12 crash-point enumeration ----

func keyKind(k string) string {
	switch {
	case k == "headers/branches/index":
		return "index"
	case strings.HasPrefix(k, "headers/branches/"):
		return "branch-file"
	case k == "headers/invalid":
		return "invalid-list"
	case strings.HasPrefix(k, "headers/"):
		return "main-file"
	}
	return "other"
}

func (e *Engine) crashEnum(in *Inst, img0 map[string][]byte, j []common.JournalOp, opname string) {
	e.Crash.Ops++
	for n := 0; n <= len(j); n++ {
		next := "complete"
		if n < len(j) {
			next = keyKind(j[n].Key)
			if j[n].Remove {
				next = "remove-" + next
			}
		}
		img := common.ApplyJournal(img0, j, n)
		if _, ok := img["headers/branches/index"]; !ok {
			// no Save has completed yet: Load takes the migration path. It must still succeed and
			// report a linked chain of accepted headers from genesis (genesis alone is fine: the
			// work at the last completed Save is zero)
			e.Crash.ByKind["no-index-yet"]++
		}
		e.Crash.Images++
		e.Crash.ByKind[opname+":"+next]++
		// the production Load and, in histories that prune through the hook, the same load step
		// with the history's depth (what Load does once the chain is longer than 10000 headers:
		// the pruned part of the best chain must then come from the main-chain files)
		depths := []int{0}
		if e.Trace.HookDepth > 0 {
			depths = append(depths, e.Trace.HookDepth)
		}
		for _, depth := range depths {
			e.crashLoad(in, img, depth, n, len(j), opname, next)
		}
	}
}

func (e *Engine) crashLoad(in *Inst, img map[string][]byte, depth, n, nj int, opname, next string) {
	m := in.M
	j := make([]struct{}, nj)
	for once := true; once; once = false {
		st := common.FromImage(img)
		repo := headers.NewRepository(e.Cfg, st)
		repo.DisableDifficulty()
		var err error
		pan := safe(func() {
			if depth > 0 {
				err = repo.VerifLoad(e.Ctx, depth)
			} else {
				err = repo.Load(e.Ctx)
			}
		})
		feat := fmt.Sprintf("%s/next-unwritten=%s/reorg-since-save=%v", opname, next, in.ReorgSinceSave)
		deep := false
		if depth > 0 {
			e.Crash.ByKind["loads-with-hook-depth"]++
			feat += "/load-depth=hook"
		}
		// a reorganisation since the storage was last written completely whose fork point lies
		// below the height the load prunes the stored best chain to (i.e. deeper than the prune
		// depth): the branch files still describe the old chain, the main-chain files the new one
		if in.SavedTip != nil && in.ReorgSinceSave {
			d := depth
			if d == 0 {
				d = prodPruneDepth
			}
			if f := forkPoint(in.SavedTip, m.Tip); f != nil && f.Height < in.SavedTip.Height-d {
				deep = true
				feat += "/reorg-deeper-than-prune-depth"
			}
		}
		if pan != "" || err != nil {
			e.Crash.LoadErrs++
			e.fail("C12", "load-succeeds", "crash-load-fails/"+errKind(pan, err)+"/"+feat,
				fmt.Sprintf("crash after %d of %d storage ops of %s: Load panic=%q err=%v", n, len(j), opname, pan, err))
			continue
		}
		var s *Snap
		s = TakeSnap(e.Ctx, repo, nil, nil, e.Opt.HeightSel)
		if s.Panic != "" {
			e.fail("C12", "load-succeeds", "crash-read-panic/"+feat, s.Panic)
			continue
		}
		bad := ""
		if len(s.Hashes) == 0 || s.Hashes[0] != m.Genesis.Hash {
			bad = "not-from-genesis"
		}
		for h := 0; bad == "" && h < len(s.Hashes); h++ {
			if s.HashErr[h] == "skip" {
				continue
			}
			if s.HashErr[h] != "" || s.HdrErr[h] != "" {
				bad = "height-unreadable"
				break
			}
			if _, ok := m.Ever[s.Hashes[h]]; !ok {
				bad = "not-an-accepted-header"
				break
			}
			if s.HdrHash[h] != s.Hashes[h] {
				bad = "header-hash-mismatch"
				break
			}
			if h > 0 && s.HashErr[h-1] != "skip" && s.HdrPrev[h] != s.Hashes[h-1] {
				bad = "unlinked"
				break
			}
		}
		if bad != "" {
			sig := "crash-chain-" + bad + "/" + feat
			if deep {
				// one signature per symptom for this history class (see known_findings.json): where the
				// Save was cut and which load depth was used are in the detail text
				sig = "crash-chain-" + bad + "/reorg-deeper-than-prune-depth"
				e.Crash.ByKind["images-after-reorg-deeper-than-prune-depth-with-unsound-chain"]++
			}
			e.fail("C12", "loaded-chain-is-linked-accepted-chain", sig,
				fmt.Sprintf("crash after %d of %d storage ops of %s [%s]: loaded best chain %s (tip h=%d)", n, len(j), opname, feat, bad, s.Height))
			continue
		}
		tn := m.Ever[s.Last]
		if tn == nil || len(s.Hashes) == 0 || s.Hashes[len(s.Hashes)-1] != s.Last {
			e.fail("C12", "loaded-chain-is-linked-accepted-chain", "crash-tip-inconsistent/"+feat, "")
			continue
		}
		var w big.Int
		w.SetString(s.Work, 16)
		if w.Cmp(tn.Cum) != 0 {
			e.fail("C12", "work-is-true-cumulative-work", "crash-work-wrong/"+feat,
				fmt.Sprintf("crash after %d of %d ops of %s: reported work %s, true cumulative work of tip %s", n, len(j), opname, s.Work, tn.Cum.Text(16)))
			continue
		}
		if w.Cmp(in.SavedWork) < 0 {
			e.fail("C12", "at-least-last-saved-work", "crash-work-below-last-save/"+feat,
				fmt.Sprintf("crash after %d of %d ops of %s: loaded work %s < tip work at last completed Save %s", n, len(j), opname, s.Work, in.SavedWork.Text(16)))
		}
	}
}

// forkPoint is the deepest common ancestor of two nodes.
func forkPoint(a, b *Node) *Node {
	for a != nil && b != nil && a != b {
		if a.Height >= b.Height {
			a = a.Parent
		} else {
			b = b.Parent
		}
	}
	if a == b {
		return a
	}
	return nil
}


func anyDropped(m *Model, tips []*Node) bool {
	for _, t := range tips {
		if m.MaybeDropped[t.Hash] {
			return true
		}
	}
	return false
}

// maxWorkTipsHeldForSure returns the most-work leaves of the held tree with every header that a
// Load may have dropped taken out.
func maxWorkTipsHeldForSure(m *Model) []*Node {
	var out []*Node
	for _, x := range m.Nodes {
		if m.MaybeDropped[x.Hash] {
			continue
		}
		leaf := true
		for _, c := range m.LiveChildren(x) {
			if !m.MaybeDropped[c.Hash] {
				leaf = false
			}
		}
		if !leaf {
			continue
		}
		switch {
		case len(out) == 0 || x.Cum.Cmp(out[0].Cum) > 0:
			out = []*Node{x}
		case x.Cum.Cmp(out[0].Cum) == 0:
			out = append(out, x)
		}
	}
	return out
}
