package hdr

import (
	"context"
	"fmt"
	"math/rand"
	"sync/atomic"

	"verifharness/common"

	"github.com/tokenized/pkg/merkle_proof"
	"github.com/tokenized/pkg/wire"
)

type proofCase struct {
	Block   Hash
	Txids   []Hash
	Index   int
	UseHdr  bool
	UseHash bool
	Dups    bool // encode duplicated siblings through DuplicatedIndexes
}

func buildProof(hd *wire.BlockHeader, pc proofCase) *merkle_proof.MerkleProof {
	txid := pc.Txids[pc.Index]
	p := &merkle_proof.MerkleProof{Index: pc.Index, TxID: &txid}
	// walk levels
	level := append([]Hash(nil), pc.Txids...)
	idx := pc.Index
	layer := 1
	for len(level) > 1 {
		dupLast := len(level)%2 == 1
		if dupLast {
			level = append(level, level[len(level)-1])
		}
		sib := level[idx^1]
		if pc.Dups && dupLast && idx == len(level)-2 {
			p.DuplicatedIndexes = append(p.DuplicatedIndexes, layer)
		} else {
			p.Path = append(p.Path, sib)
		}
		next := make([]Hash, len(level)/2)
		for i := range next {
			next[i] = dsha(level[2*i], level[2*i+1])
		}
		level = next
		idx /= 2
		layer++
	}
	if pc.UseHdr {
		c := hd.Copy()
		p.BlockHeader = &c
	}
	if pc.UseHash {
		h := *hd.BlockHash()
		p.BlockHash = &h
	}
	return p
}

func copyProof(p *merkle_proof.MerkleProof) *merkle_proof.MerkleProof {
	c := p.Copy()
	return &c
}

var c18Obs struct {
	valid, corrupt, sideBlocks, bestBlocks, prunedBlocks, removedBlocks, droppedBlocks int64
}

// c18Post verifies proofs for the blocks of a finished history against the live repository.
func c18Post(ctx context.Context, run *common.Run, res *GenResult, idx int) {
	e := res.E
	in := e.Insts[len(e.Insts)-1]
	if in.Tainted || len(res.Blocks) == 0 {
		return
	}
	rng := rand.New(rand.NewSource(run.Seed*7919 + int64(idx)))
	m := in.M
	report := func(clause, sig, detail string, w interface{}) {
		run.Violate(common.Violation{Clause: clause, Signature: sig, Detail: detail,
			Witness: map[string]interface{}{"kind": "merkle-proof", "trace": e.Trace, "case": w}})
	}
	verify := func(p *merkle_proof.MerkleProof) (h int, l bool, err error, pan string) {
		pan = safe(func() { h, l, err = in.Repo.VerifyMerkleProof(ctx, p) })
		return
	}
	// pick blocks: tip, a mid best-chain block, side-branch blocks, a possibly pruned one
	var picks []*Node
	for _, n := range m.Nodes {
		if _, ok := res.Blocks[n.Hash]; ok {
			picks = append(picks, n)
		}
	}
	rng.Shuffle(len(picks), func(i, j int) { picks[i], picks[j] = picks[j], picks[i] })
	if len(picks) > 6 {
		picks = picks[:6]
	}
	for _, n := range picks {
		txids := res.Blocks[n.Hash]
		onBest := m.OnBest(n)
		if m.MaybeDropped[n.Hash] {
			// a side-branch block a Load may not have restored: unknown, or its true height off the best chain
			if onBest {
				continue
			}
			for _, mode := range []struct{ hdr, hash bool }{{true, false}, {false, true}} {
				pc := proofCase{Block: n.Hash, Txids: txids, Index: rng.Intn(len(txids)), UseHdr: mode.hdr, UseHash: mode.hash}
				h, l, err, pan := verify(buildProof(n.Header, pc))
				run.Eval(1)
				atomic.AddInt64(&c18Obs.droppedBlocks, 1)
				desc := fmt.Sprintf("block h=%d (side branch a load may have dropped) ntx=%d hdr=%v hash=%v", n.Height, len(txids), mode.hdr, mode.hash)
				switch {
				case pan != "":
					report("verification-never-crashes", "verify-panic/maybe-dropped", desc+": "+pan, pc)
				case err != nil && errClass(err) != "unknown":
					report("valid-proof-verifies", "valid-proof-rejected/maybe-dropped/"+errClass(err), fmt.Sprintf("%s: %v", desc, err), pc)
				case err == nil && (h != n.Height || l):
					report("reports-true-height-and-best-chain-status", fmt.Sprintf("valid-proof-wrong-result/maybe-dropped/height-delta=%d/flag=%v-want-false", clampDelta(h, n.Height), l),
						fmt.Sprintf("%s: got (%d,%v) want (%d,false) or unknown", desc, h, l, n.Height), pc)
				}
			}
			continue
		}
		where := "side"
		if onBest {
			where = "best"
			atomic.AddInt64(&c18Obs.bestBlocks, 1)
		} else {
			atomic.AddInt64(&c18Obs.sideBlocks, 1)
		}
		if m.MaybePruned[n.Hash] {
			if !onBest {
				continue
			}
			where = "pruned-best"
			atomic.AddInt64(&c18Obs.prunedBlocks, 1)
		}
		ti := rng.Intn(len(txids))
		for _, mode := range []struct{ hdr, hash, dups bool }{{true, false, false}, {false, true, false}, {true, true, true}, {false, true, true}} {
			pc := proofCase{Block: n.Hash, Txids: txids, Index: ti, UseHdr: mode.hdr, UseHash: mode.hash, Dups: mode.dups}
			base := buildProof(n.Header, pc)
			desc := fmt.Sprintf("block h=%d (%s) ntx=%d index=%d hdr=%v hash=%v dups=%v", n.Height, where, len(txids), ti, mode.hdr, mode.hash, mode.dups)
			h, l, err, pan := verify(copyProof(base))
			run.Eval(1)
			atomic.AddInt64(&c18Obs.valid, 1)
			if pan != "" {
				report("verification-never-crashes", "verify-panic/valid", desc+": "+pan, pc)
				continue
			}
			if err != nil {
				report("valid-proof-verifies", "valid-proof-rejected/"+where, fmt.Sprintf("%s: %v", desc, err), pc)
				continue
			}
			if h != n.Height || l != onBest {
				report("reports-true-height-and-best-chain-status", fmt.Sprintf("valid-proof-wrong-result/%s/height-delta=%d/flag=%v-want-%v", where, clampDelta(h, n.Height), l, onBest),
					fmt.Sprintf("%s: got (%d,%v) want (%d,%v)", desc, h, l, n.Height, onBest), pc)
			}
			run.DistinctStr(fmt.Sprintf("%d/%d/%s/%v%v%v", len(txids), ti, where, mode.hdr, mode.hash, mode.dups))
			// single-element corruptions
			depth := len(base.Path) + len(base.DuplicatedIndexes)
			corrupt := func(name string, mut func(p *merkle_proof.MerkleProof) bool) {
				p := copyProof(base)
				if !mut(p) {
					return
				}
				run.Eval(1)
				atomic.AddInt64(&c18Obs.corrupt, 1)
				_, _, err, pan := verify(p)
				if pan != "" {
					report("verification-never-crashes", "verify-panic/"+name, desc+": "+pan, pc)
					return
				}
				if err == nil {
					report("any-alteration-fails", "altered-proof-verifies/"+name, desc+": corruption "+name+" still verifies", pc)
				}
			}
			corrupt("txid-bit", func(p *merkle_proof.MerkleProof) bool {
				t := *p.TxID
				t[rng.Intn(32)] ^= 1 << uint(rng.Intn(8))
				p.TxID = &t
				return true
			})
			for i := range base.Path {
				i := i
				corrupt("path-flip", func(p *merkle_proof.MerkleProof) bool {
					p.Path[i][rng.Intn(32)] ^= 1 << uint(rng.Intn(8))
					return true
				})
				corrupt("path-drop", func(p *merkle_proof.MerkleProof) bool {
					p.Path = append(p.Path[:i:i], p.Path[i+1:]...)
					return true
				})
				corrupt("path-duplicate", func(p *merkle_proof.MerkleProof) bool {
					np := append([]Hash(nil), p.Path[:i+1]...)
					np = append(np, p.Path[i])
					np = append(np, p.Path[i+1:]...)
					p.Path = np
					return true
				})
				if i+1 < len(base.Path) && base.Path[i] != base.Path[i+1] {
					corrupt("path-swap", func(p *merkle_proof.MerkleProof) bool {
						p.Path[i], p.Path[i+1] = p.Path[i+1], p.Path[i]
						return true
					})
				}
			}
			corrupt("path-append", func(p *merkle_proof.MerkleProof) bool {
				var x Hash
				rng.Read(x[:])
				p.Path = append(p.Path, x)
				return true
			})
			for _, d := range []int{-1, 1} {
				d := d
				corrupt("index-step", func(p *merkle_proof.MerkleProof) bool {
					p.Index += d
					// index-1/+1 with an identical sibling is the same leaf value only if txids repeat; they do not
					return true
				})
			}
			for bit := 0; bit <= 40; bit++ {
				bit := bit
				name := "index-bit-within-depth"
				if bit >= depth {
					name = "index-bit-beyond-depth"
				}
				corrupt(name, func(p *merkle_proof.MerkleProof) bool {
					p.Index ^= 1 << uint(bit)
					return true
				})
			}
			corrupt("index-negative", func(p *merkle_proof.MerkleProof) bool {
				if p.Index == 0 {
					p.Index = -2
				} else {
					p.Index = -p.Index
				}
				return true
			})
			if len(base.DuplicatedIndexes) > 0 {
				corrupt("dup-index-drop", func(p *merkle_proof.MerkleProof) bool {
					p.DuplicatedIndexes = p.DuplicatedIndexes[1:]
					return true
				})
				corrupt("dup-index-shift", func(p *merkle_proof.MerkleProof) bool {
					p.DuplicatedIndexes[0]++
					return true
				})
			} else if depth > 0 {
				corrupt("dup-index-add", func(p *merkle_proof.MerkleProof) bool {
					p.DuplicatedIndexes = []int{1 + rng.Intn(depth)}
					return true
				})
			}
			if mode.hdr {
				for f := 0; f < 6; f++ {
					f := f
					corrupt(fmt.Sprintf("header-field-%d", f), func(p *merkle_proof.MerkleProof) bool {
						switch f {
						case 0:
							p.BlockHeader.Version ^= 1 << uint(rng.Intn(31))
						case 1:
							p.BlockHeader.PrevBlock[rng.Intn(32)] ^= 1
						case 2:
							p.BlockHeader.MerkleRoot[rng.Intn(32)] ^= 1
						case 3:
							p.BlockHeader.Timestamp ^= 1 << uint(rng.Intn(32))
						case 4:
							p.BlockHeader.Bits ^= 1 << uint(rng.Intn(16))
						case 5:
							p.BlockHeader.Nonce ^= 1 << uint(rng.Intn(32))
						}
						return true
					})
				}
			}
			if mode.hash && !mode.hdr {
				corrupt("block-hash-unknown", func(p *merkle_proof.MerkleProof) bool {
					h := *p.BlockHash
					h[rng.Intn(32)] ^= 1
					p.BlockHash = &h
					return true
				})
				// hash of another known block
				for _, o := range picks {
					if o != n && !m.MaybeDropped[o.Hash] {
						o := o
						corrupt("block-hash-other-known-block", func(p *merkle_proof.MerkleProof) bool {
							h := o.Hash
							p.BlockHash = &h
							return true
						})
						break
					}
				}
			}
			corrupt("no-header-no-hash", func(p *merkle_proof.MerkleProof) bool {
				p.BlockHeader = nil
				p.BlockHash = nil
				return true
			})
			corrupt("header-of-unknown-block", func(p *merkle_proof.MerkleProof) bool {
				// a header with the right merkle root that the repository never accepted
				hd := n.Header.Copy()
				hd.Nonce ^= 0x55aa55aa
				p.BlockHeader = &hd
				p.BlockHash = nil
				return true
			})
		}
	}
	// blocks whose header was excluded by invalid-marking (and not accepted again): the repository
	// no longer holds them, so a proof for one of them must not be reported as tying the
	// transaction to the best chain
	nrem := 0
	for h, n := range m.Ever {
		txids, ok := res.Blocks[h]
		if !ok || !n.Removed || m.Nodes[h] != nil || nrem >= 3 {
			continue
		}
		nrem++
		atomic.AddInt64(&c18Obs.removedBlocks, 1)
		for _, mode := range []struct{ hdr, hash bool }{{true, false}, {false, true}} {
			pc := proofCase{Block: h, Txids: txids, Index: 0, UseHdr: mode.hdr, UseHash: mode.hash}
			hh, l, err, pan := verify(buildProof(n.Header, pc))
			run.Eval(1)
			if pan != "" {
				report("verification-never-crashes", "verify-panic/removed-block", pan, pc)
				continue
			}
			if err == nil && l {
				report("reports-true-height-and-best-chain-status", fmt.Sprintf("proof-for-header-excluded-by-invalid-marking-reported-on-best-chain/hdr=%v", mode.hdr),
					fmt.Sprintf("block h=%d excluded by invalid-marking: proof verified as (%d, on best chain)", n.Height, hh), pc)
			}
		}
	}
}
