package hdr

import (
	"context"
	"fmt"

	"verifharness/common"

	"github.com/tokenized/bitcoin_reader/headers"
	"github.com/tokenized/pkg/wire"
)

// C18AfterLoad: proofs for blocks in pruned history after Save and Load, with the load-time prune
// height on and off a 1000-header file boundary (the load hook stands in for chains longer than
// the production prune depth). Every block carries a real merkle root; each proof is given with
// the header and with the block hash only and must report the block's true height on the best chain.
func C18AfterLoad(ctx context.Context, run *common.Run) {
	for ci, c := range []struct{ tip, depth int }{{1020, 20}, {1013, 8}, {2012, 12}, {2100, 150}} {
		rng := common.Rng(run.Seed, int64(718000+ci))
		st := common.NewMemStore()
		repo := headers.NewRepository(headers.DefaultConfig(), st)
		repo.DisableDifficulty()
		repo.InitializeWithGenesis()
		prev := MainGenesis()
		type blk struct {
			hd    *wire.BlockHeader
			txids []Hash
			h     int
		}
		var picks []blk
		// a side branch whose fork point ends up below the load-time prune height while its own
		// headers reach above it: a Load may drop it, and must then not know its blocks either
		var side []blk
		forkH := c.tip - c.depth - 5
		var forkHd *wire.BlockHeader
		want := map[int]bool{1: true, 500: true, 999: true, 1000: true, 1001: true, c.tip - c.depth - 1: true, c.tip - c.depth: true, c.tip - 1: true, c.tip: true}
		okAll := true
		for h := 1; h <= c.tip; h++ {
			hd := &wire.BlockHeader{Version: 1, PrevBlock: *prev.BlockHash(), Timestamp: prev.Timestamp + 600, Bits: 0x1d00ffff, Nonce: rng.Uint32()}
			txids := make([]Hash, 1+rng.Intn(6))
			for i := range txids {
				rng.Read(txids[i][:])
			}
			hd.MerkleRoot = RefMerkleRoot(txids)
			if err := repo.ProcessHeader(ctx, hd); err != nil {
				run.Inconclusive("after-load proofs: build: " + err.Error())
				okAll = false
				break
			}
			if want[h] {
				picks = append(picks, blk{hd, txids, h})
			}
			prev = hd
			if h == forkH {
				forkHd = hd
			}
			if h == forkH+10 && forkHd != nil {
				sp := forkHd
				for sh := forkH + 1; sh <= forkH+8; sh++ {
					shd := &wire.BlockHeader{Version: 1, PrevBlock: *sp.BlockHash(), Timestamp: sp.Timestamp + 601, Bits: 0x1d00ffff, Nonce: rng.Uint32()}
					stx := make([]Hash, 1+rng.Intn(6))
					for i := range stx {
						rng.Read(stx[i][:])
					}
					shd.MerkleRoot = RefMerkleRoot(stx)
					if err := repo.ProcessHeader(ctx, shd); err != nil {
						run.Inconclusive("after-load proofs: build side branch: " + err.Error())
						okAll = false
						break
					}
					side = append(side, blk{shd, stx, sh})
					sp = shd
				}
			}
		}
		if !okAll {
			continue
		}
		if err := repo.Save(ctx); err != nil {
			run.Inconclusive("after-load proofs: save: " + err.Error())
			continue
		}
		loaded := headers.NewRepository(headers.DefaultConfig(), st.Clone())
		loaded.DisableDifficulty()
		var lerr error
		if pan := safe(func() { lerr = loaded.VerifLoad(ctx, c.depth) }); pan != "" || lerr != nil {
			run.Inconclusive(fmt.Sprintf("after-load proofs: load: %v %v", pan, lerr))
			continue
		}
		for _, b := range picks {
			for _, mode := range []struct{ hdr, hash bool }{{true, false}, {false, true}} {
				pc := proofCase{Block: *b.hd.BlockHash(), Txids: b.txids, Index: rng.Intn(len(b.txids)), UseHdr: mode.hdr, UseHash: mode.hash}
				var h int
				var l bool
				var err error
				pan := safe(func() { h, l, err = loaded.VerifyMerkleProof(ctx, buildProof(b.hd, pc)) })
				run.Eval(1)
				run.DistinctStr(fmt.Sprintf("after-load/%d/%d/%d/%v", c.tip, c.depth, b.h, mode.hdr))
				w := map[string]interface{}{"kind": "merkle-proof-after-load", "tip": c.tip, "load_prune_depth": c.depth, "block_height": b.h, "with_header": mode.hdr, "seed": run.Seed}
				switch {
				case pan != "":
					run.Violate(common.Violation{Clause: "verification-never-crashes", Signature: "verify-panic/after-load", Detail: pan, Witness: w})
				case err != nil:
					run.Violate(common.Violation{Clause: "valid-proof-verifies", Signature: fmt.Sprintf("valid-proof-rejected/after-load/hdr=%v", mode.hdr),
						Detail: fmt.Sprintf("block %d of a %d-header chain loaded with prune depth %d: %v", b.h, c.tip, c.depth, err), Witness: w})
				case h != b.h || !l:
					run.Violate(common.Violation{Clause: "reports-true-height-and-best-chain-status", Signature: fmt.Sprintf("valid-proof-wrong-result/after-load/height-delta=%d/flag=%v", clampDelta(h, b.h), l),
						Detail: fmt.Sprintf("block %d of a %d-header chain loaded with prune depth %d: got (%d,%v)", b.h, c.tip, c.depth, h, l), Witness: w})
				}
			}
		}
		// blocks of the side branch: either the loaded repository still holds the branch (true
		// height, not on the best chain) or it does not know the block at all
		for _, b := range side {
			for _, mode := range []struct{ hdr, hash bool }{{true, false}, {false, true}} {
				pc := proofCase{Block: *b.hd.BlockHash(), Txids: b.txids, Index: rng.Intn(len(b.txids)), UseHdr: mode.hdr, UseHash: mode.hash}
				var h int
				var l bool
				var err error
				pan := safe(func() { h, l, err = loaded.VerifyMerkleProof(ctx, buildProof(b.hd, pc)) })
				run.Eval(1)
				run.DistinctStr(fmt.Sprintf("after-load-side/%d/%d/%d/%v/%v", c.tip, c.depth, b.h, mode.hdr, err == nil))
				w := map[string]interface{}{"kind": "merkle-proof-after-load-side-branch", "tip": c.tip, "load_prune_depth": c.depth, "fork_height": forkH, "block_height": b.h, "with_header": mode.hdr, "seed": run.Seed}
				switch {
				case pan != "":
					run.Violate(common.Violation{Clause: "verification-never-crashes", Signature: "verify-panic/after-load-side", Detail: pan, Witness: w})
				case err != nil && errClass(err) != "unknown":
					run.Violate(common.Violation{Clause: "valid-proof-verifies", Signature: fmt.Sprintf("side-block-proof-rejected-though-known/after-load/%s", errClass(err)),
						Detail: fmt.Sprintf("side-branch block %d (fork at %d, chain %d, load prune depth %d): %v", b.h, forkH, c.tip, c.depth, err), Witness: w})
				case err == nil && (h != b.h || l):
					run.Violate(common.Violation{Clause: "reports-true-height-and-best-chain-status", Signature: fmt.Sprintf("side-block-wrong-result/after-load/height-delta=%d/flag=%v", clampDelta(h, b.h), l),
						Detail: fmt.Sprintf("side-branch block %d (fork at %d, chain %d, load prune depth %d): got (%d,%v), the block is not on the best chain", b.h, forkH, c.tip, c.depth, h, l), Witness: w})
				}
			}
		}
	}
}

func init() { Extra["C18"] = C18AfterLoad }
