package hdr

import (
	"context"
	"fmt"

	"verifharness/common"

	"github.com/tokenized/bitcoin_reader/headers"
	"github.com/tokenized/pkg/wire"
)

// C12DeepReorg is the production-depth counterpart of the hook-depth crash loads: a best chain of
// 10010 headers is saved, a side branch that forked at height 5 (created while the chain was
// short, then only extended) overtakes it by one header -- a reorganisation deeper than the
// 10000-header prune depth -- and the second Save is cut after every prefix of its Write/Remove
// sequence. Each image is loaded by a fresh repository with the production Load and the reported
// best chain is walked from genesis.
func C12DeepReorg(ctx context.Context, run *common.Run) {
	st := common.NewMemStore()
	repo := headers.NewRepository(headers.DefaultConfig(), st)
	repo.DisableDifficulty()
	repo.InitializeWithGenesis()
	g := MainGenesis()
	accepted := map[Hash]bool{*g.BlockHash(): true}
	mk := func(prev Hash, ts uint32, salt uint32) *wire.BlockHeader {
		hd := &wire.BlockHeader{Version: 1, PrevBlock: prev, Timestamp: ts, Bits: 0x1d00ffff, Nonce: salt}
		hd.MerkleRoot[0], hd.MerkleRoot[1], hd.MerkleRoot[2] = byte(salt), byte(salt>>8), byte(salt>>16)
		return hd
	}
	submit := func(hd *wire.BlockHeader) bool {
		var err error
		if pan := safe(func() { err = repo.ProcessHeader(ctx, hd) }); pan != "" || err != nil {
			run.Inconclusive(fmt.Sprintf("deep-reorg scenario could not be built: %v %v", pan, err))
			return false
		}
		accepted[*hd.BlockHash()] = true
		return true
	}
	const mainLen, forkAt = 10010, 5
	prev, ts := *g.BlockHash(), g.Timestamp
	var mainHashes []Hash
	var sidePrev Hash
	var sideTs uint32
	for h := 1; h <= mainLen; h++ {
		ts += 600
		hd := mk(prev, ts, uint32(h))
		if !submit(hd) {
			return
		}
		prev = *hd.BlockHash()
		mainHashes = append(mainHashes, prev)
		if h == forkAt {
			sidePrev, sideTs = prev, ts
		}
		if h == forkAt+1 {
			// the side branch starts now, one below the tip
			s := mk(sidePrev, sideTs+601, 0x40000000|uint32(forkAt+1))
			if !submit(s) {
				return
			}
			sidePrev, sideTs = *s.BlockHash(), sideTs+601
		}
	}
	if err := repo.Save(ctx); err != nil {
		run.Inconclusive("deep-reorg scenario: first Save failed: " + err.Error())
		return
	}
	savedWork := repo.AccumulatedWork()
	for h := forkAt + 2; h <= mainLen+1; h++ {
		sideTs += 600
		s := mk(sidePrev, sideTs, 0x40000000|uint32(h))
		if !submit(s) {
			return
		}
		sidePrev = *s.BlockHash()
	}
	if repo.Height() != mainLen+1 || repo.LastHash() != sidePrev {
		run.Inconclusive("deep-reorg scenario: the side branch did not become the best chain")
		return
	}
	img0 := st.Image()
	st.StartJournal()
	err := repo.Save(ctx)
	j := st.StopJournal()
	if err != nil {
		run.Inconclusive("deep-reorg scenario: second Save failed: " + err.Error())
		return
	}
	bad := 0
	for n := 0; n <= len(j); n++ {
		next := "complete"
		if n < len(j) {
			next = keyKind(j[n].Key)
			if j[n].Remove {
				next = "remove-" + next
			}
		}
		r2 := headers.NewRepository(headers.DefaultConfig(), common.FromImage(common.ApplyJournal(img0, j, n)))
		r2.DisableDifficulty()
		var lerr error
		pan := safe(func() { lerr = r2.Load(ctx) })
		run.Eval(1)
		run.DistinctStr(fmt.Sprintf("deep-reorg/%d/%s", n, next))
		feat := fmt.Sprintf("save/next-unwritten=%s/reorg-since-save=true/load-depth=production/reorg-deeper-than-prune-depth", next)
		w := map[string]interface{}{"kind": "deep-reorg-crash-image", "main_chain": mainLen, "fork_height": forkAt, "side_tip": mainLen + 1,
			"storage_ops_of_second_save": len(j), "applied": n}
		if pan != "" || lerr != nil {
			bad++
			run.Violate(common.Violation{Clause: "load-succeeds", Signature: "crash-load-fails/" + errKind(pan, lerr) + "/" + feat,
				Detail: fmt.Sprintf("crash after %d of %d storage ops of the Save after a %d-deep reorganisation: Load panic=%q err=%v", n, len(j), mainLen-forkAt, pan, lerr), Witness: w})
			continue
		}
		// walk the reported best chain
		what := ""
		var below Hash
		tip := r2.Height()
		for h := 0; h <= tip && what == ""; h++ {
			var hd *wire.BlockHeader
			var herr error
			if p := safe(func() { hd, herr = r2.Header(ctx, h) }); p != "" || herr != nil || hd == nil {
				what = "height-unreadable"
				break
			}
			hh := *hd.BlockHash()
			switch {
			case !accepted[hh]:
				what = "not-an-accepted-header"
			case h > 0 && hd.PrevBlock != below:
				what = "unlinked"
			}
			below = hh
		}
		if what == "" && r2.AccumulatedWork().Cmp(savedWork) < 0 {
			what = "work-below-last-save"
		}
		if what != "" {
			bad++
			run.Violate(common.Violation{Clause: "loaded-chain-is-linked-accepted-chain", Signature: "crash-chain-" + what + "/reorg-deeper-than-prune-depth",
				Detail: fmt.Sprintf("crash after %d of %d storage ops of the Save after a %d-deep reorganisation (production Load, prune depth 10000) [%s]: loaded best chain %s (tip h=%d)", n, len(j), mainLen-forkAt, feat, what, tip), Witness: w})
		}
	}
	run.Extra("deep_reorg_at_production_depth", map[string]int{"crash_images_loaded": len(j) + 1, "images_with_unsound_best_chain": bad})
}
