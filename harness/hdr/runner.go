package hdr

import (
	"context"
	"encoding/json"
	"fmt"
	"os"
	"runtime"
	"sort"
	"sync"
	"sync/atomic"
	"time"

	"verifharness/common"
)

// HistCheck describes one property check driven by generated header-repository histories.
type HistCheck struct {
	Prop string
	Gen  GenCfg
	Opt  Options
	Rule string
	Post func(ctx context.Context, run *common.Run, res *GenResult, idx int) // extra per-history oracle
}

type sigHit struct {
	f     Finding
	trace Trace
	count int
}

// RunHistCheck runs n generated histories and reports the findings of hc.Prop.
func RunHistCheck(run *common.Run, hc HistCheck, n int) {
	ctx := common.QuietCtx()
	if hc.Opt.Props == nil {
		hc.Opt.Props = map[string]bool{hc.Prop: true}
	}
	hc.Opt.Touch = run.Touch
	var mu sync.Mutex
	hits := map[string]*sigHit{}
	stats := map[string]int{}
	completed, truncated := 0, 0
	crash := CrashStats{ByKind: map[string]int{}}
	var found int64
	common.ParallelFor(n, runtime.NumCPU(), func(i int) {
		if atomic.LoadInt64(&found) >= 400 {
			return // enough witnesses; the tree is broken, no need to exhaust the budget
		}
		rng := common.Rng(run.Seed, int64(i))
		t0 := time.Now()
		res := RunHistory(ctx, rng, hc.Gen, hc.Opt)
		if d := time.Since(t0); d > 5*time.Second && os.Getenv("VERIF_SLOW") != "" {
			fmt.Fprintf(os.Stderr, "SLOW history %d: %v ops=%d shape=%.80s stats=%v\n", i, d, len(res.E.Trace.Ops), res.Shape, res.E.Stats)
		}
		if hc.Post != nil && !res.E.Failed() {
			hc.Post(ctx, run, res, i)
		}
		run.Eval(1)
		if res.NonTrivial {
			run.DistinctStr(res.Shape)
		}
		if i < 3 {
			run.Sample(sampleOf(res))
		}
		mu.Lock()
		defer mu.Unlock()
		for k, v := range res.E.Stats {
			stats[k] += v
		}
		stats["ops"] += len(res.E.Trace.Ops)
		crash.Images += res.E.Crash.Images
		crash.Ops += res.E.Crash.Ops
		crash.LoadErrs += res.E.Crash.LoadErrs
		for k, v := range res.E.Crash.ByKind {
			crash.ByKind[k] += v
		}
		if res.E.Failed() {
			truncated++
		} else {
			completed++
		}
		for _, f := range res.E.Findings {
			if f.Prop != hc.Prop {
				continue
			}
			atomic.AddInt64(&found, 1)
			h, ok := hits[f.Sig]
			if !ok {
				hits[f.Sig] = &sigHit{f: f, trace: res.E.Trace, count: 1}
			} else {
				h.count++
				if len(res.E.Trace.Ops) < len(h.trace.Ops) {
					h.f, h.trace = f, res.E.Trace
				}
			}
		}
	})
	run.Extra("history_stats", stats)
	run.Extra("histories_completed_without_finding", completed)
	run.Extra("histories_stopped_at_a_finding", truncated)
	if hc.Opt.CrashPoints {
		run.Extra("crash_points", map[string]interface{}{"maintenance_ops_journalled": crash.Ops,
			"crash_images_loaded": crash.Images, "by_op_and_next_unwritten_key": crash.ByKind})
	}
	var sigs []string
	for s := range hits {
		sigs = append(sigs, s)
	}
	sort.Strings(sigs)
	for _, s := range sigs {
		h := hits[s]
		tr := h.trace
		if !run.IsKnown(s) {
			tr = Minimise(ctx, h.trace, hc.Opt, hc.Prop, s, 400)
		}
		for c := 0; c < h.count; c++ {
			run.Violate(common.Violation{Clause: h.f.Clause, Signature: s, Detail: h.f.Detail,
				Witness: map[string]interface{}{"kind": "header-history", "trace": tr}})
		}
	}
}

func sampleOf(res *GenResult) interface{} {
	var ops []string
	for i, op := range res.E.Trace.Ops {
		if i >= 40 {
			ops = append(ops, "...")
			break
		}
		s := op.K
		if op.Note != "" {
			s += "(" + op.Note + ")"
		}
		if op.D > 0 {
			s += fmt.Sprintf("@%d", op.D)
		}
		ops = append(ops, s)
	}
	return map[string]interface{}{"max_branch_depth": res.E.Trace.MaxDepth, "ops": ops,
		"forks": res.Forks, "reorgs": res.Reorgs, "non_accept_verdicts": res.NonAccept}
}

// ReplayFile re-executes a witness trace written by a header-history check.
func ReplayFile(path string, prop string, opt Options) (int, error) {
	b, err := os.ReadFile(path)
	if err != nil {
		return 2, err
	}
	var doc struct {
		Property  string `json:"property"`
		Signature string `json:"signature"`
		Witness   struct {
			Kind  string `json:"kind"`
			Trace Trace  `json:"trace"`
		} `json:"witness"`
	}
	if err := json.Unmarshal(b, &doc); err != nil {
		return 2, err
	}
	if opt.Props == nil {
		opt.Props = map[string]bool{prop: true}
	}
	e, err := ReplayTrace(common.QuietCtx(), doc.Witness.Trace, opt)
	if err != nil {
		return 2, err
	}
	code := 0
	for _, f := range e.Findings {
		if f.Prop != prop {
			continue
		}
		fmt.Printf("VIOLATION property=%s replay=%s\n  op#%d clause=%s signature=%s\n  %s\n", prop, path, f.OpIdx, f.Clause, f.Sig, f.Detail)
		code = 1
	}
	if code == 0 {
		fmt.Printf("replay of %s: no violation of %s (%d ops)\n", path, prop, len(doc.Witness.Trace.Ops))
	}
	return code, nil
}
