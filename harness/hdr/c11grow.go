package hdr

import (
	"context"
	"fmt"
	"runtime"

	"verifharness/common"

	"github.com/tokenized/bitcoin_reader/headers"
	"github.com/tokenized/pkg/wire"
)

// C11LoadGrowPrune: what Load builds for the retained part of the best chain is only consulted
// once those headers leave memory again. A chain whose retained part reaches into the next
// 1000-header file is saved and loaded with a small prune depth (the load hook: what Load does
// beyond 10000 headers), the original and the loaded repository then receive the same new headers
// and prune again, and every header is looked up in both.
func C11LoadGrowPrune(ctx context.Context, run *common.Run) {
	type combo struct{ tip, depth, grow int }
	combos := []combo{{1010, 20, 30}, {1003, 8, 12}, {2005, 12, 20}, {1000, 10, 15}, {999, 12, 20}, {1499, 600, 700},
		// the load-time prune height lands exactly on a 1000-header file boundary
		{1020, 20, 5}, {2012, 12, 5}, {1008, 8, 3}, {3030, 30, 40}}
	n := len(combos)
	if run.Tier == "thorough" {
		n = 120
	}
	for i := len(combos); i < n; i++ {
		rng := common.Rng(run.Seed, int64(881000+i))
		d := 5 + rng.Intn(40)
		base := []int{1000, 2000, 3000}[rng.Intn(3)]
		combos = append(combos, combo{base - 3 + rng.Intn(d+6), d, d + rng.Intn(2*d)})
	}
	common.ParallelFor(len(combos), runtime.NumCPU(), func(ci int) {
		c := combos[ci]
		rng := common.Rng(run.Seed, int64(882000+ci))
		mk := func(prev *wire.BlockHeader) *wire.BlockHeader {
			hd := &wire.BlockHeader{Version: 1, PrevBlock: *prev.BlockHash(), Timestamp: prev.Timestamp + 600, Bits: 0x1d00ffff, Nonce: rng.Uint32()}
			rng.Read(hd.MerkleRoot[:])
			return hd
		}
		chain := []*wire.BlockHeader{MainGenesis()}
		st := common.NewMemStore()
		orig := headers.NewRepository(headers.DefaultConfig(), st)
		orig.DisableDifficulty()
		orig.InitializeWithGenesis()
		w := map[string]interface{}{"kind": "load-grow-prune", "tip_at_save": c.tip, "prune_depth": c.depth, "headers_added_after_load": c.grow, "seed": run.Seed}
		fail := func(clause, sig, detail string) {
			run.Violate(common.Violation{Clause: clause, Signature: sig, Detail: fmt.Sprintf("tip %d, depth %d, +%d: %s", c.tip, c.depth, c.grow, detail), Witness: w})
		}
		for len(chain) <= c.tip {
			hd := mk(chain[len(chain)-1])
			if err := orig.ProcessHeader(ctx, hd); err != nil {
				run.Inconclusive("load-grow-prune: build: " + err.Error())
				return
			}
			chain = append(chain, hd)
		}
		if err := orig.Save(ctx); err != nil {
			fail("load-of-saved-state-succeeds", "save-fails/load-grow-prune", err.Error())
			return
		}
		loaded := headers.NewRepository(headers.DefaultConfig(), st.Clone())
		loaded.DisableDifficulty()
		var lerr error
		if pan := safe(func() { lerr = loaded.VerifLoad(ctx, c.depth) }); pan != "" || lerr != nil {
			fail("load-of-saved-state-succeeds", "load-fails/load-grow-prune", fmt.Sprintf("%v %v", pan, lerr))
			return
		}
		compare := func(stage string) bool {
			for h, hd := range chain {
				hash := *hd.BlockHash()
				a, b := orig.HashHeight(hash), loaded.HashHeight(hash)
				if a != h || b != h {
					fail("same-height-per-header", "loaded-hashheight-after-later-prune/"+stage, fmt.Sprintf("header %d: original reports %d, loaded reports %d", h, a, b))
					return false
				}
				var gh *wire.BlockHeader
				var gheight int
				var gl bool
				var gerr error
				if pan := safe(func() { gh, gheight, gl, gerr = loaded.GetHeader(ctx, hash) }); pan != "" {
					fail("same-height-per-header", "getheader-panics/"+stage, pan)
					return false
				}
				if gerr != nil {
					fail("retrievable-before-retrievable-after", "loaded-getheader-fails/"+stage+"/"+errClass(gerr), fmt.Sprintf("header %d of the best chain: GetHeader on the loaded repository: %v", h, gerr))
					return false
				}
				// by height: the same best chain at every height, in memory or read back from the files
				for ri, r := range []*headers.Repository{orig, loaded} {
					var hh *Hash
					var herr error
					if pan := safe(func() { hh, herr = r.Hash(ctx, h) }); pan != "" {
						fail("same-best-chain-at-every-height", "hash-at-height-panics/"+stage, pan)
						return false
					}
					if herr != nil || hh == nil || *hh != hash {
						fail("same-best-chain-at-every-height", fmt.Sprintf("hash-at-height-wrong/%s/%s/%s", stage, []string{"original", "loaded"}[ri], errOrWrong(errClass(herr))),
							fmt.Sprintf("height %d: Hash() on the %s repository returned %v (%v), the chain has %s", h, []string{"original", "loaded"}[ri], hh, herr, hash))
						return false
					}
				}
				if gerr == nil && (gh == nil || *gh.BlockHash() != hash || gheight != h || !gl) {
					fail("same-height-per-header", "loaded-getheader-after-later-prune/"+stage, fmt.Sprintf("header %d: GetHeader on the loaded repository returned height %d longest=%v", h, gheight, gl))
					return false
				}
			}
			return true
		}
		run.Eval(1)
		if !compare("after-load") {
			return
		}
		for i := 0; i < c.grow; i++ {
			hd := mk(chain[len(chain)-1])
			for _, r := range []*headers.Repository{orig, loaded} {
				if err := r.ProcessHeader(ctx, hd); err != nil {
					fail("loaded-treats-submission-like-original", "extension-refused/load-grow-prune", err.Error())
					return
				}
			}
			chain = append(chain, hd)
		}
		for _, r := range []*headers.Repository{orig, loaded} {
			var err error
			if pan := safe(func() {
				if err = r.Clean(ctx); err == nil {
					err = r.VerifPrune(ctx, c.depth)
				}
			}); pan != "" || err != nil {
				fail("load-of-saved-state-succeeds", "clean-fails/load-grow-prune", fmt.Sprintf("%v %v", pan, err))
				return
			}
		}
		run.Eval(1)
		if compare("after-growth-and-prune") {
			run.DistinctStr(fmt.Sprintf("load-grow-prune/%d/%d/%d", c.tip, c.depth, c.grow))
		}
	})
}
