package hdr

import (
	"context"
	"fmt"

	"verifharness/common"

	"github.com/tokenized/bitcoin_reader/headers"
	"github.com/tokenized/pkg/wire"
)

// C07PeriodicClean: the automatic clean every 10000 heights runs inside ProcessHeader, between
// adding the header and announcing it. The stream is followed across that boundary while the best
// chain is an unconsolidated child branch (a fork that overtook a few headers earlier), with one
// subscriber registered from the start and one registered after the reorganisation.
func C07PeriodicClean(ctx context.Context, run *common.Run) {
	for vi := 0; vi < 2; vi++ {
		rng := common.Rng(run.Seed, int64(707000+vi))
		repo := headers.NewRepository(headers.DefaultConfig(), common.NewMemStore())
		repo.DisableDifficulty()
		repo.InitializeWithGenesis()
		g := MainGenesis()
		mk := func(prev *wire.BlockHeader) *wire.BlockHeader {
			hd := &wire.BlockHeader{Version: 1, PrevBlock: *prev.BlockHash(), Timestamp: prev.Timestamp + 600, Bits: 0x1d00ffff, Nonce: rng.Uint32()}
			rng.Read(hd.MerkleRoot[:])
			return hd
		}
		type sub struct {
			ch    <-chan *wire.BlockHeader
			chain []Hash // applied stream, by height (from the height it was registered at)
			base  int
		}
		var subs []*sub
		register := func() {
			h := repo.Height()
			s := &sub{ch: repo.GetNewHeadersAvailableChannel(), base: h}
			for i := 0; i <= h; i++ {
				hh, _ := repo.Hash(ctx, i)
				s.chain = append(s.chain, *hh)
			}
			subs = append(subs, s)
		}
		w := map[string]interface{}{"kind": "stream-across-periodic-clean", "variant": vi, "seed": run.Seed}
		bad := false
		apply := func(step string) {
			for si, s := range subs {
				for len(s.ch) > 0 {
					hd := <-s.ch
					// attach to its previous-block hash, discarding what was above it
					at := -1
					for i := len(s.chain) - 1; i >= 0; i-- {
						if s.chain[i] == hd.PrevBlock {
							at = i
							break
						}
					}
					if at < 0 {
						run.Violate(common.Violation{Clause: "stream-reconstructs-best-chain", Signature: "announced-header-does-not-attach/periodic-clean",
							Detail: fmt.Sprintf("%s: subscriber %d got a header whose previous block it never saw (repository height %d)", step, si, repo.Height()), Witness: w})
						bad = true
						return
					}
					s.chain = append(s.chain[:at+1], *hd.BlockHash())
				}
				if len(s.chain)-1 != repo.Height() || s.chain[len(s.chain)-1] != repo.LastHash() {
					run.Violate(common.Violation{Clause: "stream-reconstructs-best-chain", Signature: "stream-behind-repository/periodic-clean",
						Detail: fmt.Sprintf("%s: subscriber %d reconstructs height %d, repository reports %d", step, si, len(s.chain)-1, repo.Height()), Witness: w})
					bad = true
					return
				}
			}
		}
		submit := func(hd *wire.BlockHeader, step string) bool {
			if err := repo.ProcessHeader(ctx, hd); err != nil {
				run.Inconclusive("periodic-clean scenario: " + step + ": " + err.Error())
				return false
			}
			run.Eval(1)
			apply(step)
			return !bad
		}
		forkBelow := 3 + rng.Intn(8) // the fork starts this many headers below 9990
		main := []*wire.BlockHeader{g}
		okAll := true
		for h := 1; h <= 9990 && okAll; h++ {
			hd := mk(main[len(main)-1])
			if h == 9000 {
				register()
			}
			okAll = submit(hd, "main")
			main = append(main, hd)
		}
		if !okAll {
			continue
		}
		tip := main[9990-forkBelow]
		for h := 9990 - forkBelow + 1; h <= 10010 && okAll; h++ {
			hd := mk(tip)
			okAll = submit(hd, fmt.Sprintf("fork@%d", h))
			tip = hd
			if h == 9992 {
				register() // a subscriber that joins after the reorganisation
			}
		}
		if okAll {
			run.DistinctStr(fmt.Sprintf("periodic-clean/%d/%d", vi, forkBelow))
		}
	}
}

func init() { Extra["C07"] = C07PeriodicClean }
