package hdr

import (
	"bytes"
	"context"
	"fmt"
	"math/big"
	"runtime"

	"verifharness/common"

	"github.com/tokenized/bitcoin_reader/headers"
	"github.com/tokenized/pkg/bitcoin"
	"github.com/tokenized/pkg/wire"
)

// C11Migrate: legacy version-0 header files (version byte 0 + raw 80-byte headers, 1000 per file)
// are loaded (migration), compared with the generating chain, saved and loaded again.
func C11Migrate(ctx context.Context, run *common.Run) {
	lengths := []int{1, 2, 3, 10, 999, 1000, 1001, 1500, 2000, 2001, 2999}
	if run.Tier == "thorough" {
		for i := 0; i < 60; i++ {
			lengths = append(lengths, 1+int(common.Rng(run.Seed, int64(i)).Int31n(3500)))
		}
	}
	common.ParallelFor(len(lengths), runtime.NumCPU(), func(li int) {
		n := lengths[li]
		rng := common.Rng(run.Seed, int64(880000+li))
		chain := []*wire.BlockHeader{MainGenesis()}
		cum := []*big.Int{WorkOfBits(chain[0].Bits)}
		for len(chain) < n {
			p := chain[len(chain)-1]
			hd := &wire.BlockHeader{Version: 1, PrevBlock: *p.BlockHash(), Timestamp: p.Timestamp + 600,
				Bits: bitsChoices[rng.Intn(len(bitsChoices))], Nonce: rng.Uint32()}
			rng.Read(hd.MerkleRoot[:])
			chain = append(chain, hd)
			cum = append(cum, new(big.Int).Add(cum[len(cum)-1], WorkOfBits(hd.Bits)))
		}
		st := common.NewMemStore()
		for f := 0; f*1000 < n; f++ {
			var b bytes.Buffer
			b.WriteByte(0)
			for i := f * 1000; i < n && i < (f+1)*1000; i++ {
				chain[i].Serialize(&b)
			}
			st.Put(fmt.Sprintf("headers/%08x", f), b.Bytes())
		}
		cfg := &headers.Config{Network: bitcoin.MainNet, MaxBranchDepth: 144}
		w := map[string]interface{}{"kind": "legacy-migration", "headers": n}
		run.Eval(1)
		run.DistinctStr(fmt.Sprintf("migrate/%d", n))
		check := func(repo *headers.Repository, stage string) bool {
			if h := repo.Height(); h != n-1 {
				run.Violate(common.Violation{Clause: "migration-restores-chain", Signature: "migrate-height/" + stage,
					Detail: fmt.Sprintf("%d legacy headers: height %d after %s, want %d", n, h, stage, n-1), Witness: w})
				return false
			}
			if repo.AccumulatedWork().Cmp(cum[n-1]) != 0 {
				run.Violate(common.Violation{Clause: "migration-restores-chain", Signature: "migrate-work/" + stage,
					Detail: fmt.Sprintf("work %s want %s", repo.AccumulatedWork().Text(16), cum[n-1].Text(16)), Witness: w})
				return false
			}
			for h := 0; h < n; h++ {
				if h > 5 && h < n-5 && h%97 != 0 && (h%1000 > 2 && h%1000 < 998) {
					continue
				}
				hh, err := repo.Hash(ctx, h)
				if err != nil || *hh != *chain[h].BlockHash() {
					run.Violate(common.Violation{Clause: "migration-restores-chain", Signature: "migrate-hash-at-height/" + stage,
						Detail: fmt.Sprintf("height %d of %d: %v %v", h, n, hh, err), Witness: w})
					return false
				}
				if got := repo.HashHeight(*chain[h].BlockHash()); got != h {
					run.Violate(common.Violation{Clause: "migration-restores-chain", Signature: "migrate-hashheight/" + stage,
						Detail: fmt.Sprintf("height %d reported %d", h, got), Witness: w})
					return false
				}
			}
			return true
		}
		repo := headers.NewRepository(cfg, st)
		var err error
		pan := safe(func() { err = repo.Load(ctx) })
		if pan != "" || err != nil {
			run.Violate(common.Violation{Clause: "migration-restores-chain", Signature: "migrate-load-fails", Detail: fmt.Sprintf("%v %v", pan, err), Witness: w})
			return
		}
		if !check(repo, "migrating-load") {
			return
		}
		// files rewritten in the current format
		for f := 0; f*1000 < n; f++ {
			b, _ := st.Read(ctx, fmt.Sprintf("headers/%08x", f))
			if len(b) == 0 || b[0] != 1 {
				run.Violate(common.Violation{Clause: "migration-rewrites-files", Signature: "migrate-file-version", Detail: fmt.Sprintf("file %d", f), Witness: w})
				return
			}
		}
		// continue: extend, save, load again
		repo.DisableDifficulty()
		p := chain[n-1]
		ext := &wire.BlockHeader{Version: 1, PrevBlock: *p.BlockHash(), Timestamp: p.Timestamp + 600, Bits: 0x1d00ffff, Nonce: rng.Uint32()}
		if err := repo.ProcessHeader(ctx, ext); err != nil {
			run.Violate(common.Violation{Clause: "migration-restores-chain", Signature: "migrate-extension-refused", Detail: err.Error(), Witness: w})
			return
		}
		chain = append(chain, ext)
		cum = append(cum, new(big.Int).Add(cum[n-1], WorkOfBits(ext.Bits)))
		n++
		pan = safe(func() { err = repo.Save(ctx) })
		if pan != "" || err != nil {
			run.Violate(common.Violation{Clause: "save-completes", Signature: "migrate-save-fails", Detail: fmt.Sprintf("%v %v", pan, err), Witness: w})
			return
		}
		r2 := headers.NewRepository(cfg, st)
		pan = safe(func() { err = r2.Load(ctx) })
		if pan != "" || err != nil {
			run.Violate(common.Violation{Clause: "load-of-saved-state-succeeds", Signature: "migrate-second-load-fails", Detail: fmt.Sprintf("%v %v", pan, err), Witness: w})
			return
		}
		check(r2, "load-after-save")
	})
	// empty storage: Load initialises with genesis
	r := headers.NewRepository(&headers.Config{Network: bitcoin.MainNet, MaxBranchDepth: 144}, common.NewMemStore())
	if err := r.Load(ctx); err != nil || r.Height() != 0 || r.LastHash() != *MainGenesis().BlockHash() {
		run.Violate(common.Violation{Clause: "empty-storage-loads-genesis", Signature: "empty-load", Detail: fmt.Sprintf("%v height %d", err, r.Height())})
	}
	run.Eval(1)
}

func init() {
	Extra["C11"] = func(ctx context.Context, run *common.Run) {
		C11Migrate(ctx, run)
		C11LoadGrowPrune(ctx, run)
	}
	// what Load registers for restored headers is a lookup matter (C09) and only shows once a later
	// prune drops them from memory (C10): the same scenario decides those clauses too
	Extra["C09"] = C11LoadGrowPrune
	Extra["C10"] = func(ctx context.Context, run *common.Run) {
		C11LoadGrowPrune(ctx, run)
		C10MarkThenPrune(ctx, run)
	}
}
