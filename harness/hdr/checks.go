package hdr

import (
	"context"
	"fmt"
	"os"

	"verifharness/common"
)

func baseGen() GenCfg {
	return GenCfg{MinOps: 8, MaxOps: 60, MaxDepths: []int{0, 1, 2, 5, 144}, BaseLens: []int{0, 0, 1, 2, 3, 8, 20},
		WSubmit: 100}
}

// HistChecks returns the history-driven check for a property.
func HistCheckFor(prop string) (HistCheck, bool) {
	g := baseGen()
	// one history in longEvery gets a base chain crossing 1000-header file boundaries (each op on
	// such a chain costs ~0.5 s because pruned heights are read back from the header files)
	longEvery := 400
	if os.Getenv("VERIF_TIER") == "thorough" || Tier == "thorough" {
		longEvery = 150
	}
	hc := HistCheck{Prop: prop}
	switch prop {
	case "C01":
		g.WClean, g.WSave, g.WReload = 6, 3, 4
		g.PruneDepths = []int{0, 0, 0, 8, 12}
		hc.Rule = "seeded random header histories (lane racing, forks anywhere, depth-limit forks, orphans, duplicates, retries) interleaved with Clean/Save/Load; distinct = distinct (parent-index,bits,verdict,op) strings; non-trivial = (>=1 fork and >=1 best-chain reorg) or >=1 non-accept verdict"
	case "C07":
		g.WClean, g.WSub = 4, 4
		hc.Rule = "as C01 without Save/Load, with 0-3 subscribers registered at seeded points; oracle per submission: announced == best-after minus best-before"
	case "C08":
		g.WClean, g.WSave = 4, 3
		g.MaxDepths = []int{0, 0, 1, 2, 3, 5, 144}
		g.SaveAroundRefusal = true
		g.WMark, g.WUnmark = 2, 1 // the "marked invalid" answer: headers marked at run time, resubmitted, unmarked, resubmitted
		hc.Rule = "histories with an adversarial next-header chooser (orphan, duplicate of any known header, fork exactly at / one beyond max depth, child of a deep side tip, retry of a refused header, resubmission of headers marked invalid at run time and of their descendants), MaxBranchDepth from 0"
	case "C09":
		g.WClean, g.WSave, g.WReload = 10, 2, 5
		g.PruneDepths = []int{0, 0, 8, 12, 20}
		g.BaseLens = longBases([]int{0, 2, 8, 20, 30}, longEvery, []int{998, 1003, 2001})
		hc.Rule = "histories emphasising multi-branch trees consolidated repeatedly, small prune depths via hook, reloads; every accepted header looked up through every by-hash API after every op"
	case "C10":
		g.WClean = 14
		g.WMark, g.WUnmark = 2, 1 // what invalid-marking leaves in the hash lookup only shows at the next prune
		g.PruneDepths = []int{0, 0, 8, 12, 20}
		g.BaseLens = longBases([]int{0, 0, 1, 2, 3, 8, 20}, longEvery, []int{999, 1002, 2000})
		hc.Rule = "histories with Clean at every kind of position (after reorgs, repeated, several side branches), then continued; snapshot before == after for tip, every height, every header's height and flag"
	case "C11":
		g.WClean, g.WSave, g.WReload = 6, 3, 10
		g.WMark, g.WUnmark = 2, 2
		g.Twin = true
		g.PruneDepths = []int{0, 0, 0, 12, 20}
		g.BaseLens = longBases([]int{0, 0, 1, 2, 3, 8, 20}, longEvery, []int{997, 1001})
		hc.Rule = "histories with repeated Save/Load generations mixed with Clean; loaded vs original vs model; both continue with the same submissions (twin mode)"
	case "C12":
		g.WClean, g.WSave, g.WReload = 8, 8, 2
		g.EarlySave = true
		g.PruneDepths = []int{0, 0, 8, 12}
		g.BaseLens = longBases([]int{0, 0, 1, 2, 3, 8, 20}, longEvery, []int{998, 1001})
		hc.Opt.CrashPoints = true
		hc.Rule = "every prefix of the Write/Remove journal of every Clean and Save in each history is loaded by a fresh repository (fault enumeration per history)"
	case "C17":
		g.WClean, g.WSave, g.WReload, g.WMark, g.WUnmark = 4, 2, 4, 10, 5
		g.PruneDepths = []int{0, 0, 0, 8, 12}
		g.BaseLens = []int{0, 0, 0, 2, 8, 20, 30}
		hc.Rule = "histories with MarkHeaderInvalid on best chain (depth 0,1,mid,deep), side branch, unseen, unknown, already marked, also on chains pruned in memory by Clean / Load with small prune depths (targets at or below the in-memory floor are a separate class, see known findings); followed by submissions, Save/Load, unmarking and resubmission"
	case "C19":
		g.WClean, g.WReload = 6, 3
		g.PruneDepths = []int{0, 0, 8, 12}
		g.BaseLens = []int{0, 0, 1, 2, 3, 8, 20, 40}
		g.PeerReply = true
		hc.Rule = "locators for max in {1,2,3,10,50} checked after every op of histories with several side branches, cleans, reloads and pruned chains; a simulated protocol-conformant peer (same chain / ahead / forking at a seeded height) answers the current locator and its first header is submitted back; plus a sweep over the real chain around the split height with same-chain and BCH-fork peers"
	case "C18":
		g.WClean, g.WSave, g.WReload = 5, 2, 3
		g.MinOps, g.MaxOps = 6, 30
		g.MerkleBlocks = true
		g.WMark, g.WUnmark = 3, 1
		g.PruneDepths = []int{0, 0, 8, 12}
		g.BaseLens = []int{0, 2, 8, 20}
		hc.Post = c18Post
		hc.Rule = "for the blocks (1-70 txids, real merkle roots) of each generated history: valid proofs by a reference merkle implementation given with header / hash only / both, explicit and DuplicatedIndexes encodings, on best, side and pruned blocks, and (must not be reported on the best chain) on blocks excluded by invalid-marking; then every single-element corruption of each valid proof. distinct = (ntx,index,location,encoding)"
	default:
		return hc, false
	}
	if longEvery == 150 {
		// thorough tier: about one history in 4000 starts from a chain around the production
		// prune depth / automatic-clean interval of 10000 headers (each costs minutes of CPU)
		switch prop {
		case "C01", "C09", "C10", "C11", "C12":
			g.BaseLens = withEpochs(g.BaseLens, 4000, []int{9996, 10003, 11000})
			hc.Rule += "; thorough tier: ~1 history in 4000 starts from a 9996/10003/11000-header chain (production prune depth, automatic clean every 10000 heights)"
		}
	}
	hc.Gen = g
	return hc, true
}

func HistCount(prop, tier string) int {
	quick := map[string]int{"C01": 6000, "C07": 6000, "C08": 5000, "C09": 5000, "C10": 5000, "C11": 4000,
		"C12": 2500, "C17": 5000, "C18": 1500, "C19": 5000}
	n := quick[prop]
	if tier == "thorough" {
		n *= 60
	}
	if v := os.Getenv("VERIF_N"); v != "" { // debugging aid: override the number of histories
		fmt.Sscan(v, &n)
	}
	return n
}

// Tier is set by RunHist before the check is configured.
var Tier = "quick"

// Extra lets other packages add scenarios to a history-driven check (run before Finish).
var Extra = map[string]func(ctx context.Context, run *common.Run){}

func RunHist(prop, tier string, seed int64) int {
	Tier = tier
	hc, ok := HistCheckFor(prop)
	if !ok {
		return 2
	}
	level := "exploration"
	if prop == "C12" || prop == "C18" {
		level = "fault_enumeration"
	}
	run := common.NewRun(prop, tier, seed, level)
	run.Rule = hc.Rule
	run.Assumptions = []string{"reference model of the accepted-header tree (hdr/model.go) is the oracle",
		"difficulty checks disabled via the repository's own DisableDifficulty helper so that headers need no mining",
		"panics are caught at the client boundary and counted as process death"}
	RunHistCheck(run, hc, HistCount(prop, tier))
	if f := Extra[prop]; f != nil {
		f(common.QuietCtx(), run)
	}
	if prop == "C18" {
		run.Extra("proofs", map[string]int64{"valid_proofs_verified": c18Obs.valid, "corrupted_proofs_tried": c18Obs.corrupt,
			"blocks_on_best_chain": c18Obs.bestBlocks, "blocks_on_side_branches": c18Obs.sideBlocks, "blocks_in_pruned_history": c18Obs.prunedBlocks, "blocks_excluded_by_invalid_marking": c18Obs.removedBlocks, "proofs_for_side_blocks_a_load_may_have_dropped": c18Obs.droppedBlocks})
	}
	return run.Finish()
}

// longBases returns short base lengths repeated so that about one history in `every` gets one of
// the long bases (chains crossing 1000-header file boundaries).
func longBases(short []int, every int, long []int) []int {
	var out []int
	for len(out) < every*len(long) {
		out = append(out, short...)
	}
	return append(out, long...)
}

// withEpochs repeats the base list so that about one history in `every` gets one of the epoch
// bases (chains around the 10000-header prune depth).
func withEpochs(bases []int, every int, epochs []int) []int {
	var out []int
	for len(out) < every*len(epochs) {
		out = append(out, bases...)
	}
	return append(out, epochs...)
}
