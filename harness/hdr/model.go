package hdr

import (
	"math/big"

	"github.com/tokenized/pkg/bitcoin"
	"github.com/tokenized/pkg/wire"
)

type Hash = bitcoin.Hash32

var two256 = new(big.Int).Lsh(big.NewInt(1), 256)

// RefCompactTarget decodes compact "bits" per the consensus definition. neg reports a negative
// encoding (sign bit with non-zero mantissa), overflow a value above 2^256-1.
func RefCompactTarget(bits uint32) (target *big.Int, neg bool, overflow bool) {
	exp := bits >> 24
	mant := bits & 0x007fffff
	t := new(big.Int)
	if exp <= 3 {
		mant >>= 8 * (3 - exp)
		t.SetUint64(uint64(mant))
	} else {
		t.SetUint64(uint64(mant))
		t.Lsh(t, uint(8*(exp-3)))
	}
	neg = mant != 0 && (bits&0x00800000) != 0
	overflow = mant != 0 && (exp > 34 || (mant > 0xff && exp > 33) || (mant > 0xffff && exp > 32))
	return t, neg, overflow
}

// RefWork is the consensus work of a target: floor(2^256 / (target+1)).
func RefWork(target *big.Int) *big.Int {
	d := new(big.Int).Add(target, big.NewInt(1))
	return new(big.Int).Div(two256, d)
}

// RefTargetToCompact encodes a target as compact bits (consensus GetCompact).
func RefTargetToCompact(t *big.Int) uint32 {
	size := uint32((t.BitLen() + 7) / 8)
	var compact uint32
	if size <= 3 {
		compact = uint32(t.Uint64() << (8 * (3 - size)))
	} else {
		s := new(big.Int).Rsh(t, uint(8*(size-3)))
		compact = uint32(s.Uint64())
	}
	if compact&0x00800000 != 0 {
		compact >>= 8
		size++
	}
	return compact | size<<24
}

func WorkOfBits(bits uint32) *big.Int {
	t, _, _ := RefCompactTarget(bits)
	return RefWork(t)
}

// Node is one header the reference model considers accepted.
type Node struct {
	Hash     Hash
	Header   *wire.BlockHeader
	Parent   *Node
	Height   int
	Cum      *big.Int
	Children []*Node
	Seq      int
	Removed  bool // trimmed by invalid-marking
	Tag      int  // generator id
}

// Model is the reference accepted-header tree.
type Model struct {
	Genesis  *Node
	Nodes    map[Hash]*Node
	Ever     map[Hash]*Node // every header ever accepted (including later removed)
	Invalid  map[Hash]bool
	MaxDepth int
	Tip      *Node // follows the repository's choice among max-work tips
	seq      int
	// MaybePruned: headers that a maintenance op may legitimately have dropped from memory.
	MaybePruned map[Hash]bool
	// Dropped: side-branch headers that a Load may legitimately not have restored.
	MaybeDropped map[Hash]bool
	// TrimTip: headers that invalid-marking made the last header of their branch although they still
	// have held children on other branches: the next child extends that branch (no new fork, so no
	// depth rule) until one is accepted.
	TrimTip map[Hash]bool
	// HookPruned: a caller-chosen (small) prune depth was applied; branch bases are then arbitrary.
	HookPruned   bool
	TwinDiverged bool
}

func NewModel(genesis *wire.BlockHeader, maxDepth int) *Model {
	g := &Node{Hash: *genesis.BlockHash(), Header: genesis, Height: 0, Cum: WorkOfBits(genesis.Bits)}
	m := &Model{Genesis: g, Nodes: map[Hash]*Node{g.Hash: g}, Ever: map[Hash]*Node{g.Hash: g},
		Invalid: map[Hash]bool{}, MaxDepth: maxDepth, Tip: g,
		MaybePruned: map[Hash]bool{}, MaybeDropped: map[Hash]bool{}}
	return m
}

func (m *Model) Clone() *Model {
	c := &Model{Nodes: map[Hash]*Node{}, Ever: map[Hash]*Node{}, Invalid: map[Hash]bool{},
		MaxDepth: m.MaxDepth, seq: m.seq, HookPruned: m.HookPruned, MaybePruned: map[Hash]bool{}, MaybeDropped: map[Hash]bool{}, TrimTip: map[Hash]bool{}}
	for k, v := range m.TrimTip {
		c.TrimTip[k] = v
	}
	// copy nodes preserving structure
	old2new := map[*Node]*Node{}
	var order []*Node
	for _, n := range m.Ever {
		order = append(order, n)
	}
	// parents before children: sort by height
	for i := 1; i < len(order); i++ {
		for j := i; j > 0 && order[j].Height < order[j-1].Height; j-- {
			order[j], order[j-1] = order[j-1], order[j]
		}
	}
	for _, n := range order {
		nn := &Node{Hash: n.Hash, Header: n.Header, Height: n.Height, Cum: n.Cum, Seq: n.Seq,
			Removed: n.Removed, Tag: n.Tag}
		if n.Parent != nil {
			nn.Parent = old2new[n.Parent]
		}
		old2new[n] = nn
		c.Ever[nn.Hash] = nn
	}
	for _, n := range order {
		nn := old2new[n]
		for _, ch := range n.Children {
			if c := old2new[ch]; c != nil {
				nn.Children = append(nn.Children, c)
			}
		}
		if _, ok := m.Nodes[n.Hash]; ok {
			c.Nodes[n.Hash] = nn
		}
	}
	c.Genesis = old2new[m.Genesis]
	c.Tip = old2new[m.Tip]
	for h := range m.Invalid {
		c.Invalid[h] = true
	}
	for h := range m.MaybePruned {
		c.MaybePruned[h] = true
	}
	for h := range m.MaybeDropped {
		c.MaybeDropped[h] = true
	}
	return c
}

func (m *Model) Get(h Hash) *Node {
	return m.Nodes[h]
}

// Accept adds a header whose parent is held. Returns the new node.
func (m *Model) Accept(hd *wire.BlockHeader) *Node {
	p := m.Nodes[hd.PrevBlock]
	if p == nil {
		return nil
	}
	h := *hd.BlockHash()
	if n, ok := m.Nodes[h]; ok {
		return n
	}
	m.seq++
	n := &Node{Hash: h, Header: hd, Parent: p, Height: p.Height + 1,
		Cum: new(big.Int).Add(p.Cum, WorkOfBits(hd.Bits)), Seq: m.seq}
	p.Children = append(p.Children, n)
	delete(m.TrimTip, p.Hash)
	m.Nodes[h] = n
	m.Ever[h] = n
	return n
}

// LiveChildren returns the children of n that are still held.
func (m *Model) LiveChildren(n *Node) []*Node {
	var out []*Node
	for _, c := range n.Children {
		if !c.Removed {
			out = append(out, c)
		}
	}
	return out
}

// MaxWorkTips returns all held headers whose cumulative work is maximal.
func (m *Model) MaxWorkTips() []*Node {
	var best *big.Int
	var out []*Node
	for _, n := range m.Nodes {
		if best == nil || n.Cum.Cmp(best) > 0 {
			best = n.Cum
			out = []*Node{n}
		} else if n.Cum.Cmp(best) == 0 {
			out = append(out, n)
		}
	}
	return out
}

func (m *Model) MaxWork() *big.Int {
	var best *big.Int
	for _, n := range m.Nodes {
		if best == nil || n.Cum.Cmp(best) > 0 {
			best = n.Cum
		}
	}
	return best
}

// Chain returns the ancestry of tip from genesis (index == height).
func Chain(tip *Node) []*Node {
	out := make([]*Node, tip.Height+1)
	for n := tip; n != nil; n = n.Parent {
		out[n.Height] = n
	}
	return out
}

// IsAncestorOrEqual reports whether a is an ancestor of (or equal to) b.
func IsAncestorOrEqual(a, b *Node) bool {
	for n := b; n != nil && n.Height >= a.Height; n = n.Parent {
		if n == a {
			return true
		}
	}
	return false
}

// Remove marks n and its descendants as no longer held (invalid-marking).
func (m *Model) Remove(n *Node) {
	var rec func(x *Node)
	rec = func(x *Node) {
		x.Removed = true
		delete(m.Nodes, x.Hash)
		for _, c := range x.Children {
			if !c.Removed {
				rec(c)
			}
		}
	}
	rec(n)
}

// OnBest reports whether n is on the ancestry of the model tip.
func (m *Model) OnBest(n *Node) bool {
	return IsAncestorOrEqual(n, m.Tip)
}

// Tips returns all held leaves.
func (m *Model) Tips() []*Node {
	var out []*Node
	for _, n := range m.Nodes {
		if len(m.LiveChildren(n)) == 0 {
			out = append(out, n)
		}
	}
	return out
}
