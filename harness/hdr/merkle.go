package hdr

import "crypto/sha256"

func dsha(a, b Hash) Hash {
	var buf [64]byte
	copy(buf[:32], a[:])
	copy(buf[32:], b[:])
	x := sha256.Sum256(buf[:])
	return sha256.Sum256(x[:])
}

// RefMerkleRoot computes the bitcoin merkle root (duplicate-last rule) over txids.
func RefMerkleRoot(txids []Hash) Hash {
	if len(txids) == 0 {
		return Hash{}
	}
	level := append([]Hash(nil), txids...)
	for len(level) > 1 {
		if len(level)%2 == 1 {
			level = append(level, level[len(level)-1])
		}
		next := make([]Hash, len(level)/2)
		for i := range next {
			next[i] = dsha(level[2*i], level[2*i+1])
		}
		level = next
	}
	return level[0]
}

// RefMerklePath returns the sibling path (bottom-up) for the tx at index, with explicit
// duplicates (a duplicated sibling appears as the node's own hash).
func RefMerklePath(txids []Hash, index int) []Hash {
	var path []Hash
	level := append([]Hash(nil), txids...)
	idx := index
	for len(level) > 1 {
		if len(level)%2 == 1 {
			level = append(level, level[len(level)-1])
		}
		path = append(path, level[idx^1])
		next := make([]Hash, len(level)/2)
		for i := range next {
			next[i] = dsha(level[2*i], level[2*i+1])
		}
		level = next
		idx /= 2
	}
	return path
}

// RefVerifyPath recomputes the root from txid, index and path.
func RefVerifyPath(txid Hash, index int, path []Hash) Hash {
	h := txid
	for _, p := range path {
		if index%2 == 0 {
			h = dsha(h, p)
		} else {
			h = dsha(p, h)
		}
		index /= 2
	}
	return h
}
