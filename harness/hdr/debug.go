package hdr

import (
	"bytes"
	"encoding/binary"
	"encoding/json"
	"fmt"
	"os"
	"strings"

	"verifharness/common"

	"github.com/tokenized/pkg/wire"
)

// DumpReplay replays a witness and prints the branch files of the last instance's storage.
func DumpReplay(path string) {
	b, _ := os.ReadFile(path)
	var doc struct {
		Witness struct {
			Trace Trace `json:"trace"`
		} `json:"witness"`
	}
	json.Unmarshal(b, &doc)
	e, err := ReplayTrace(common.QuietCtx(), doc.Witness.Trace, Options{Props: map[string]bool{}})
	if err != nil {
		fmt.Println(err)
		return
	}
	for _, in := range e.Insts {
		fmt.Println("instance", in.Name, "tip", in.Snap.Last, "height", in.Snap.Height)
		names := map[Hash]string{}
		for h, n := range in.M.Ever {
			names[h] = fmt.Sprintf("n%d@%d", n.Seq, n.Height)
		}
		for _, k := range in.Store.Keys() {
			if !strings.HasPrefix(k, "headers/branches/") || strings.HasSuffix(k, "index") {
				fmt.Println("  key", k)
				continue
			}
			data, _ := in.Store.Read(e.Ctx, k)
			r := bytes.NewReader(data)
			var ver uint8
			binary.Read(r, binary.LittleEndian, &ver)
			fh := &wire.BlockHeader{}
			fh.Deserialize(r)
			var ph, off int64
			var cnt uint32
			binary.Read(r, binary.LittleEndian, &ph)
			binary.Read(r, binary.LittleEndian, &off)
			binary.Read(r, binary.LittleEndian, &cnt)
			fmt.Printf("  branch first=%s parentHeight=%d offset=%d count=%d :", names[*fh.BlockHash()], ph, off, cnt)
			for i := uint32(0); i < cnt; i++ {
				hd := &wire.BlockHeader{}
				hd.Deserialize(r)
				w := make([]byte, 32)
				r.Read(w)
				fmt.Printf(" %s", names[*hd.BlockHash()])
			}
			fmt.Println()
		}
		for _, mx := range []int{1, 10} {
			fmt.Printf("  locator(%d):", mx)
			for _, h := range in.Snap.Locators[mx] {
				fmt.Printf(" %s", names[h])
			}
			fmt.Println()
		}
	}
}
