package hdr

import (
	"bytes"
	"context"
	"encoding/hex"
	"fmt"
	"math/big"
	"sort"
	"strings"

	"verifharness/common"

	"github.com/tokenized/bitcoin_reader/headers"
	"github.com/tokenized/pkg/bitcoin"
	"github.com/tokenized/pkg/wire"
)

// Op is one step of a header-repository history. Headers are fully materialised.
type Op struct {
	K    string `json:"k"`              // submit clean cleanat save reload mark unmark sub
	Hdr  string `json:"hdr,omitempty"`  // 80-byte header, hex
	D    int    `json:"d,omitempty"`    // prune depth for cleanat / reload (0 = production depth)
	Hash string `json:"hash,omitempty"` // mark / unmark
	Twin bool   `json:"twin,omitempty"` // reload: keep the original running next to the loaded one
	Note string `json:"note,omitempty"`
}

type Trace struct {
	MaxDepth  int  `json:"max_branch_depth"`
	HookDepth int  `json:"hook_prune_depth,omitempty"` // the history's hook prune depth (0: production depth only)
	Ops       []Op `json:"ops"`
}

type Finding struct {
	Prop   string
	Clause string
	Sig    string
	Detail string
	OpIdx  int
}

type Sub struct {
	ch    <-chan *wire.BlockHeader
	local []Hash
}

// Inst is one live repository with its storage and its own reference model.
type Inst struct {
	Name  string
	Repo  *headers.Repository
	Store *common.MemStore
	M     *Model
	Subs  []*Sub
	Snap  *Snap
	// work of the tip at the last completed Save
	SavedWork *big.Int
	Tainted   bool
	BI        *branchInfo
	// a best-chain reorganisation happened since the last completed Save
	ReorgSinceSave bool
	SavedTip       *Node // best tip when the storage was last written completely (Save, Clean, or the Save a reload came from)
}

type Options struct {
	Props       map[string]bool       // which properties' clauses are evaluated/reported
	CrashPoints bool                  // enumerate crash prefixes at Clean/Save (C12)
	HeightSel   func(h, tip int) bool // nil = every height
	Touch       func()                // progress mark for the no-progress watch (may be nil)
}

type Engine struct {
	everMarked map[Hash]bool // every hash MarkHeaderInvalid was ever called with in this history
	Ctx        context.Context
	Opt        Options
	Cfg        *headers.Config
	Insts      []*Inst
	Trace      Trace
	Findings   []Finding
	Stats      map[string]int
	Probes     []Hash // never-accepted hashes to look up
	Crash      CrashStats
	opIdx      int
	lastClass  string
}

type CrashStats struct {
	Images   int
	Ops      int
	ByKind   map[string]int
	LoadErrs int
}

func HdrHex(h *wire.BlockHeader) string {
	var b bytes.Buffer
	h.Serialize(&b)
	return hex.EncodeToString(b.Bytes())
}

func HdrFromHex(s string) (*wire.BlockHeader, error) {
	b, err := hex.DecodeString(s)
	if err != nil {
		return nil, err
	}
	h := &wire.BlockHeader{}
	if err := h.Deserialize(bytes.NewReader(b)); err != nil {
		return nil, err
	}
	return h, nil
}

func MainGenesis() *wire.BlockHeader {
	mr, _ := bitcoin.NewHash32FromStr("4a5e1e4baab89f3a32518a88c31bc87f618f76673e2cc77ab2127b7afdeda33b")
	return &wire.BlockHeader{Version: 1, MerkleRoot: *mr, Timestamp: 1231006505, Bits: 0x1d00ffff,
		Nonce: 2083236893}
}

func NewEngine(ctx context.Context, maxDepth int, opt Options) *Engine {
	cfg := &headers.Config{Network: bitcoin.MainNet, MaxBranchDepth: maxDepth}
	e := &Engine{Ctx: ctx, Opt: opt, Cfg: cfg, Stats: map[string]int{}}
	e.Trace.MaxDepth = maxDepth
	e.Crash.ByKind = map[string]int{}
	st := common.NewMemStore()
	repo := headers.NewRepository(cfg, st)
	repo.DisableDifficulty()
	repo.InitializeWithGenesis()
	in := &Inst{Name: "orig", Repo: repo, Store: st, M: NewModel(MainGenesis(), maxDepth),
		SavedWork: new(big.Int)}
	e.Insts = []*Inst{in}
	for i := 0; i < 2; i++ {
		var p Hash
		p[0] = 0xee
		p[1] = byte(i)
		e.Probes = append(e.Probes, p)
	}
	in.Snap = e.snap(in)
	return e
}

func (e *Engine) on(prop string) bool { return e.Opt.Props[prop] }

func (e *Engine) fail(prop, clause, sig, detail string) {
	if !e.on(prop) {
		return
	}
	e.Findings = append(e.Findings, Finding{Prop: prop, Clause: clause, Sig: sig, Detail: detail,
		OpIdx: e.opIdx})
}

func (e *Engine) Failed() bool { return len(e.Findings) > 0 }

func (e *Engine) keys(in *Inst) []Hash {
	ks := make([]Hash, 0, len(in.M.Ever)+len(e.Probes))
	for h := range in.M.Ever {
		ks = append(ks, h)
	}
	ks = append(ks, e.Probes...)
	return ks
}

func (e *Engine) ranges(height int) [][2]int {
	r := [][2]int{{0, 5}, {0, height + 5}}
	if height > 3 {
		r = append(r, [2]int{height - 3, 10}, [2]int{height / 2, 3}, [2]int{height, 1})
	}
	if height > 1005 {
		r = append(r, [2]int{995, 12}, [2]int{999, 2}, [2]int{900, 200})
	}
	if height > 2005 {
		r = append(r, [2]int{1990, 20}, [2]int{950, 1100})
	}
	return r
}

func (e *Engine) touch() {
	if e.Opt.Touch != nil {
		e.Opt.Touch()
	}
}

func (e *Engine) snap(in *Inst) *Snap {
	e.touch() // a snapshot is taken at least once per operation and instance
	h := 0
	safe(func() { h = in.Repo.Height() })
	return TakeSnap(e.Ctx, in.Repo, e.keys(in), e.ranges(h), e.Opt.HeightSel)
}

// Expected returns the admissible verdict classes for submitting hd.
func (m *Model) Expected(hd *wire.BlockHeader) map[string]bool {
	h := *hd.BlockHash()
	out := map[string]bool{}
	if n := m.Nodes[h]; n != nil {
		out["known"] = true
		if n.Parent != nil && m.MaybePruned[n.Parent.Hash] {
			out["unknown"] = true
			if n.Parent == m.Genesis {
				out["wrongchain"] = true
			}
		}
		if m.MaybeDropped[h] {
			// a header a Load may have dropped is re-evaluated as new
			for k := range m.expectedNew(hd, h) {
				out[k] = true
			}
		}
		return out
	}
	return m.expectedNew(hd, h)
}

func (m *Model) expectedNew(hd *wire.BlockHeader, h Hash) map[string]bool {
	out := map[string]bool{}
	p := m.Nodes[hd.PrevBlock]
	if p == nil {
		out["unknown"] = true
		return out
	}
	refused := false
	if m.Invalid[h] {
		out["invalid"] = true
		refused = true
	}
	if len(m.LiveChildren(p)) > 0 && m.Tip.Height-p.Height > m.MaxDepth {
		out["depth"] = true
		refused = true
	}
	if !refused {
		out["accepted"] = true
	}
	if m.TrimTip[p.Hash] && !m.Invalid[h] {
		// the parent is the last header of a branch that invalid-marking cut back: no new branch is
		// started (accepted without the depth rule) unless maintenance has reshaped the branches since
		out["accepted"] = true
	}
	if m.MaybePruned[p.Hash] || m.MaybeDropped[p.Hash] {
		out["unknown"] = true
		if p == m.Genesis {
			out["wrongchain"] = true
		}
		// a dropped sibling means the repo may see the parent as a branch tip (no fork), or the
		// parent's children as gone; both accept and depth-refusal are then admissible.
		out["accepted"] = true
		if m.Tip.Height-p.Height > m.MaxDepth {
			out["depth"] = true
		}
	}
	for _, c := range p.Children {
		if !c.Removed && m.MaybeDropped[c.Hash] && !m.Invalid[h] {
			out["accepted"] = true
		}
	}
	return out
}

func setStr(s map[string]bool) string {
	var ks []string
	for k := range s {
		ks = append(ks, k)
	}
	sort.Strings(ks)
	return strings.Join(ks, "|")
}

// relation classifies how the new tip b relates to the old tip a in the tree.
func relation(a, b *Node) string {
	if a == b {
		return "same"
	}
	if IsAncestorOrEqual(a, b) {
		if b.Parent == a {
			return "extend"
		}
		return "descend"
	}
	if IsAncestorOrEqual(b, a) {
		return "rollback"
	}
	return "reorg"
}

// Submit applies a header submission to every live instance.
func (e *Engine) Submit(hd *wire.BlockHeader, note string) []string {
	e.Trace.Ops = append(e.Trace.Ops, Op{K: "submit", Hdr: HdrHex(hd), Note: note})
	e.opIdx = len(e.Trace.Ops) - 1
	var classes []string
	for _, in := range e.Insts {
		if in.Tainted {
			classes = append(classes, "tainted")
			continue
		}
		classes = append(classes, e.submitOne(in, hd))
	}
	e.compareTwins(hd, classes)
	if len(classes) > 0 {
		e.lastClass = classes[len(classes)-1]
	}
	return classes
}

func (e *Engine) compareTwins(hd *wire.BlockHeader, classes []string) {
	if len(e.Insts) < 2 || !e.on("C11") {
		return
	}
	a, b := e.Insts[0], e.Insts[1]
	if a.Tainted || b.Tainted || a.M.TwinDiverged {
		return
	}
	// once the twins legitimately answered differently (a header one of them was allowed not to
	// restore) their accepted sets differ and nothing further is comparable
	defer func() {
		if classes[0] != classes[1] {
			a.M.TwinDiverged = true
		}
	}()
	// only submissions attaching within the fork-depth limit to a parent both certainly hold
	pa, pb := a.M.Nodes[hd.PrevBlock], b.M.Nodes[hd.PrevBlock]
	if pa == nil || pb == nil {
		return
	}
	if a.M.MaybePruned[pa.Hash] || b.M.MaybePruned[pb.Hash] || a.M.MaybeDropped[pa.Hash] || b.M.MaybeDropped[pb.Hash] {
		return
	}
	if a.M.Tip.Height-pa.Height > a.M.MaxDepth {
		return
	}
	h := *hd.BlockHash()
	if a.M.MaybeDropped[h] || b.M.MaybeDropped[h] {
		return
	}
	for _, c := range pa.Children {
		if a.M.MaybeDropped[c.Hash] || b.M.MaybeDropped[c.Hash] {
			return
		}
	}
	e.Stats["twin_compared"]++
	if classes[0] != classes[1] {
		e.fail("C11", "loaded-treats-submission-like-original", "twin-verdict-differs/"+classes[0]+"-vs-"+classes[1],
			fmt.Sprintf("original answered %q, loaded answered %q for %s", classes[0], classes[1], hd.BlockHash()))
		return
	}
	if a.Snap.Work == b.Snap.Work && a.Snap.Last != b.Snap.Last {
		// equal work: which of the tied tips is reported is not specified; the twins are no longer
		// comparable (depth rule, announcements) from here on
		a.M.TwinDiverged = true
		e.Stats["twin_tie_break_differs"]++
		return
	}
	if a.Snap.Last != b.Snap.Last || a.Snap.Work != b.Snap.Work || a.Snap.Height != b.Snap.Height {
		e.fail("C11", "loaded-treats-submission-like-original", "twin-tip-differs/after-"+classes[0],
			fmt.Sprintf("after submission: original tip %s h=%d work=%s, loaded tip %s h=%d work=%s",
				a.Snap.Last, a.Snap.Height, a.Snap.Work, b.Snap.Last, b.Snap.Height, b.Snap.Work))
	}
}

func (e *Engine) submitOne(in *Inst, hd *wire.BlockHeader) string {
	m := in.M
	h := *hd.BlockHash()
	before := in.Snap
	exp := m.Expected(hd)
	wasHeld := m.Nodes[h] != nil
	oldTip := m.Tip

	var err error
	pan := safe(func() { err = in.Repo.ProcessHeader(e.Ctx, hd) })
	class := errClass(err)
	if err == nil {
		class = "ok"
	}
	if pan != "" {
		class = "panic"
	}
	e.Stats["verdict_"+class]++

	// make sure h is looked up from now on (Ever gets it only if accepted; add a probe otherwise)
	if _, ok := m.Ever[h]; !ok && class != "ok" {
		found := false
		for _, p := range e.Probes {
			if p == h {
				found = true
			}
		}
		if !found && len(e.Probes) < 12 {
			e.Probes = append(e.Probes, h)
		}
	}

	var newNode *Node
	reported := class
	switch {
	case class == "panic":
		e.fail("C08", "answered-in-exactly-one-way", "submit-panic", "ProcessHeader panicked: "+pan)
		e.fail("C02", "never-a-crash", "submit-panic", "ProcessHeader panicked: "+pan)
		in.Tainted = true
		return class
	case class == "ok" && wasHeld:
		reported = "known"
		if !exp["known"] {
			e.fail("C08", "reference-verdict", "verdict/got=known/want="+setStr(exp), "")
		}
	case class == "ok":
		reported = "accepted"
		if !exp["accepted"] {
			e.fail("C08", "reference-verdict", "verdict/got=accepted/want="+setStr(exp),
				fmt.Sprintf("header %s accepted although the rules refuse it (%s)", h, setStr(exp)))
			if exp["invalid"] {
				e.fail("C17", "later-submission-refused-as-marked-invalid", "marked-header-accepted",
					fmt.Sprintf("header %s is marked invalid but was accepted", h))
			}
		}
		newNode = m.Accept(hd)
		if newNode == nil {
			in.Tainted = true
			e.fail("C08", "reference-verdict", "accepted-without-held-parent",
				fmt.Sprintf("header %s accepted but its parent is not held", h))
			return reported
		}
		delete(m.MaybeDropped, h)
		e.assignBranch(in, newNode)
	default:
		if !exp[class] {
			e.fail("C08", "reference-verdict", "verdict/got="+class+"/want="+setStr(exp),
				fmt.Sprintf("header %s answered %q (%v), admissible: %s", h, class, err, setStr(exp)))
			if exp["invalid"] && !wasHeld {
				e.fail("C17", "later-submission-refused-as-marked-invalid", "marked-header-verdict/got="+class,
					fmt.Sprintf("header %s is marked invalid but was answered %q", h, class))
			}
			if class == "invalid" && !m.Invalid[h] {
				was := "never-marked"
				if e.everMarked[h] {
					was = "unmarked-since"
				}
				e.fail("C17", "unmarking-makes-the-header-acceptable-again", "refused-as-marked-although-not-marked/"+was,
					fmt.Sprintf("header %s was refused as marked invalid (%v) but it is not marked now (%s); admissible: %s", h, err, was, setStr(exp)))
			}
		}
	}

	after := e.snap(in)
	in.Snap = after
	if after.Panic != "" {
		e.fail("C09", "lookups", "read-api-panic", after.Panic)
		e.fail("C01", "reported-chain", "read-api-panic", after.Panic)
		in.Tainted = true
		return reported
	}

	// a refusal (or duplicate) must change nothing
	if class != "ok" || wasHeld {
		if !wasHeld && class != "ok" {
			if l, ok := after.Looks[h]; ok && l.HH != -1 && m.Ever[h] == nil {
				// observable although refused: the statement of C01 counts it as accepted
				kind := "fork"
				e.fail("C08", "refusal-changes-nothing", "refused-header-observable/"+class,
					fmt.Sprintf("header %s answered %q (%v) but HashHeight=%d afterwards", h, class, err, l.HH))
				if nn := m.Accept(hd); nn != nil {
					newNode = nn
					_ = kind
					e.assignBranch(in, newNode)
				}
			}
		}
		if newNode == nil {
			if cat, d := DiffSnap(before, after, "all"); cat != "" {
				e.fail("C08", "refusal-changes-nothing", "state-changed-by/"+reported+"/"+cat,
					fmt.Sprintf("submission of %s answered %q but observable state changed: %s", h, reported, d))
			}
		}
	}

	// C01: reported tip is a max-work tip; follow the repository's choice
	tips := m.MaxWorkTips()
	var tipNode *Node
	for _, t := range tips {
		if t.Hash == after.Last {
			tipNode = t
		}
	}
	if tipNode == nil {
		heavier := tips[0]
		kind := e.reorgKind(in, oldTip, heavier)
		rn := m.Nodes[after.Last]
		detail := fmt.Sprintf("after %s of %s: reported tip %s (h=%d work=%s) but accepted header %s (h=%d) has work %s",
			reported, h, after.Last, after.Height, after.Work, heavier.Hash, heavier.Height, heavier.Cum.Text(16))
		sig := "tip-not-max-work/after=" + reported + "/reorg-to=" + kind
		if rn == nil {
			sig = "tip-not-an-accepted-header/after=" + reported
		}
		e.fail("C01", "tip-is-max-work", sig, detail)
		if class != "ok" {
			e.fail("C01", "error-never-leaves-heavier-chain-unreported", sig, detail)
		}
		in.Tainted = true
		e.checkStreams(in, before, after, reported, "tainted")
		return reported
	}
	m.Tip = tipNode
	rel := relation(oldTip, tipNode)
	if rel == "reorg" {
		kind := e.reorgKind(in, oldTip, tipNode)
		e.Stats["reorg_"+kind]++
		if newNode != nil && newNode.Parent != nil && len(m.LiveChildren(newNode.Parent)) > 1 && newNode == tipNode {
			e.Stats["reorg_on_first_header_of_branch"]++
		}
	}
	e.checkState(in, after, "submit:"+reported)
	e.checkStreams(in, before, after, reported, rel)
	return reported
}

// ---- emulated branch partition (for statistics and signatures only) ----

type branchInfo struct {
	ids    map[Hash]int
	parent map[int]int
	next   int
}

func (e *Engine) bi(in *Inst) *branchInfo {
	if in.BI == nil {
		in.BI = &branchInfo{ids: map[Hash]int{in.M.Genesis.Hash: 0}, parent: map[int]int{0: -1}, next: 1}
	}
	return in.BI
}

func (e *Engine) assignBranch(in *Inst, n *Node) {
	b := e.bi(in)
	p := n.Parent
	pid := b.ids[p.Hash]
	// first child of a header that was its branch's tip continues the branch
	cont := true
	for _, c := range p.Children {
		if c != n && !c.Removed {
			cont = false
		}
	}
	if cont {
		b.ids[n.Hash] = pid
		return
	}
	b.ids[n.Hash] = b.next
	b.parent[b.next] = pid
	b.next++
}

func (e *Engine) consolidateBranches(in *Inst) {
	b := e.bi(in)
	id := b.next
	b.next++
	b.parent[id] = -1
	for _, n := range Chain(in.M.Tip) {
		old := b.ids[n.Hash]
		_ = old
		b.ids[n.Hash] = id
	}
	// every other branch now hangs off whatever branch holds its base's parent
	for h, bid := range b.ids {
		n := in.M.Ever[h]
		if n == nil || n.Parent == nil || bid == id {
			continue
		}
		if b.ids[n.Parent.Hash] != bid {
			b.parent[bid] = b.ids[n.Parent.Hash]
		}
	}
}

func (e *Engine) reorgKind(in *Inst, a, bn *Node) string {
	b := e.bi(in)
	ba, bb := b.ids[a.Hash], b.ids[bn.Hash]
	if ba == bb {
		return "same-branch"
	}
	anc := func(x, y int) bool { // x is an ancestor branch of y
		for i := 0; y != -1 && i < 1000; i++ {
			y = b.parent[y]
			if y == x {
				return true
			}
		}
		return false
	}
	switch {
	case anc(ba, bb):
		return "child"
	case anc(bb, ba):
		return "parent"
	case b.parent[ba] == b.parent[bb]:
		return "sibling"
	}
	return "cousin"
}

// ---- state oracle: C01 / C09 / C17 / C19 on a snapshot ----

func (e *Engine) checkState(in *Inst, s *Snap, after string) {
	m := in.M
	tip := m.Tip
	chain := Chain(tip)
	if s.Height != tip.Height || s.Work != tip.Cum.Text(16) {
		e.fail("C01", "tip-height-and-work", "tip-fields-wrong/after="+strings.SplitN(after, ":", 2)[0],
			fmt.Sprintf("tip %s: reported height %d work %s, true height %d work %s", s.Last, s.Height,
				s.Work, tip.Height, tip.Cum.Text(16)))
		in.Tainted = true
		return
	}
	for h := 0; h <= tip.Height; h++ {
		want := chain[h].Hash
		if s.HashErr[h] == "skip" {
			continue
		}
		if s.HashErr[h] != "" || s.Hashes[h] != want {
			e.fail("C01", "hash-at-height-is-tip-ancestry", fmt.Sprintf("hash-at-height-wrong/%s", errOrWrong(s.HashErr[h])),
				fmt.Sprintf("after %s: Hash(%d)=%s%s, ancestry of tip has %s", after, h, s.Hashes[h], s.HashErr[h], want))
			e.fail("C09", "height-queries-return-the-best-chain-header", fmt.Sprintf("hash-at-height-wrong/%s/%s", errOrWrong(s.HashErr[h]), memOrStore(m, chain[h])),
				fmt.Sprintf("after %s: Hash(%d)=%s%s, best chain has %s", after, h, s.Hashes[h], s.HashErr[h], want))
			in.Tainted = true
			return
		}
		if s.HdrErr[h] != "" || s.HdrHash[h] != want {
			e.fail("C01", "header-at-height-is-tip-ancestry", fmt.Sprintf("header-at-height-wrong/%s", errOrWrong(s.HdrErr[h])),
				fmt.Sprintf("after %s: Header(%d) hashes to %s%s, ancestry of tip has %s", after, h, s.HdrHash[h], s.HdrErr[h], want))
			e.fail("C09", "height-queries-return-the-best-chain-header", fmt.Sprintf("header-at-height-wrong/%s/%s", errOrWrong(s.HdrErr[h]), memOrStore(m, chain[h])),
				fmt.Sprintf("after %s: Header(%d) hashes to %s%s, best chain has %s", after, h, s.HdrHash[h], s.HdrErr[h], want))
			in.Tainted = true
			return
		}
		if h > 0 && s.HashErr[h-1] != "skip" && s.HdrPrev[h] != s.Hashes[h-1] {
			e.fail("C01", "prev-hash-links", "prev-link-broken",
				fmt.Sprintf("Header(%d).PrevBlock != Hash(%d)", h, h-1))
			in.Tainted = true
			return
		}
	}
	if s.Beyond != "beyondtip" || s.BeyondH != "beyondtip" {
		e.fail("C09", "height-beyond-tip-reported", "beyond-tip-class/"+s.Beyond+"/"+s.BeyondH, "")
	}

	// ranges
	for key, got := range s.Ranges {
		if strings.Contains(key, "!") {
			e.fail("C09", "range-query", "getheaders-"+key[strings.Index(key, "!")+1:], "GetHeaders("+key+") failed")
			continue
		}
		var start, max int
		fmt.Sscanf(key, "%d+%d", &start, &max)
		var want []Hash
		for h := start; h <= tip.Height && len(want) < max; h++ {
			want = append(want, chain[h].Hash)
		}
		ok := len(got) == len(want)
		for i := 0; ok && i < len(want); i++ {
			ok = got[i] == want[i]
		}
		if !ok {
			e.fail("C09", "range-query", "getheaders-wrong",
				fmt.Sprintf("after %s: GetHeaders(%s) returned %d headers, best chain has %d there (or contents differ)", after, key, len(got), len(want)))
		}
	}

	// by-hash lookups
	for h, n := range m.Ever {
		l, ok := s.Looks[h]
		if !ok {
			continue
		}
		if l.Panic != "" {
			e.fail("C09", "lookups", "lookup-panic", l.Panic)
			continue
		}
		if n.Removed {
			// C17: marked-invalid header or descendant
			if l.CHE == "" && l.CHL {
				e.fail("C17", "not-reported-in-most-work-chain", "excluded-header-flagged-longest/checkheader",
					fmt.Sprintf("after %s: CheckHeader(%s) = (%d, true) for a header excluded by invalid-marking", after, h, l.CHH))
			}
			if l.GHE == "" && l.GHL {
				e.fail("C17", "not-reported-in-most-work-chain", "excluded-header-flagged-longest/getheader",
					fmt.Sprintf("after %s: GetHeader(%s) longest=true for a header excluded by invalid-marking", after, h))
			}
			continue
		}
		dropped := m.MaybeDropped[h]
		onBest := IsAncestorOrEqual(n, tip)
		where := "side"
		if onBest {
			where = "best"
		}
		if l.HH != n.Height {
			if !(dropped && l.HH == -1) {
				e.fail("C09", "hashheight-true-height", fmt.Sprintf("hashheight-wrong/delta=%d/%s", clampDelta(l.HH, n.Height), where),
					fmt.Sprintf("after %s: HashHeight(%s)=%d, true height %d (%s chain)", after, h, l.HH, n.Height, where))
				continue
			}
		}
		if l.CHE != "" {
			if !(dropped && l.CHE == "unknown") {
				e.fail("C09", "checkheader", "checkheader-error/"+l.CHE+"/"+where,
					fmt.Sprintf("after %s: CheckHeader(%s) failed (%s) for an accepted header", after, h, l.CHE))
			}
		} else {
			if l.CHH != n.Height {
				e.fail("C09", "checkheader", fmt.Sprintf("checkheader-height/delta=%d/%s", clampDelta(l.CHH, n.Height), where),
					fmt.Sprintf("after %s: CheckHeader(%s) height %d, true %d", after, h, l.CHH, n.Height))
			} else if l.CHL != onBest {
				e.fail("C09", "longest-flag-iff-ancestor-of-tip", fmt.Sprintf("checkheader-flag/got=%v/want=%v/%s", l.CHL, onBest, e.flagFeature(in, n)),
					fmt.Sprintf("after %s: CheckHeader(%s) flag %v but header (h=%d) ancestor-or-equal of tip: %v", after, h, l.CHL, n.Height, onBest))
			}
		}
		pruned := m.MaybePruned[h]
		if l.GHE != "" {
			okErr := (dropped && l.GHE == "unknown") || (pruned && !onBest)
			if !okErr {
				e.fail("C09", "getheader", "getheader-error/"+l.GHE+"/"+where,
					fmt.Sprintf("after %s: GetHeader(%s) failed (%s) for a retrievable accepted header (h=%d, %s chain)", after, h, l.GHE, n.Height, where))
			}
		} else {
			if l.GHHash != h {
				e.fail("C09", "getheader-returns-that-header", "getheader-wrong-header/"+where,
					fmt.Sprintf("after %s: GetHeader(%s) returned a header hashing to %s", after, h, l.GHHash))
			} else if l.GHH != n.Height {
				e.fail("C09", "getheader", fmt.Sprintf("getheader-height/delta=%d/%s", clampDelta(l.GHH, n.Height), where),
					fmt.Sprintf("after %s: GetHeader(%s) height %d, true %d", after, h, l.GHH, n.Height))
			} else if l.GHL != onBest {
				e.fail("C09", "longest-flag-iff-ancestor-of-tip", fmt.Sprintf("getheader-flag/got=%v/want=%v/%s", l.GHL, onBest, e.flagFeature(in, n)),
					fmt.Sprintf("after %s: GetHeader(%s) flag %v but ancestor-or-equal of tip: %v", after, h, l.GHL, onBest))
			}
		}
		// predecessor (only while certainly held in memory)
		if n.Parent == nil {
			if !l.PHNil && !pruned {
				e.fail("C09", "previoushash", "previoushash-of-genesis", "")
			}
		} else if !pruned && !dropped && !m.MaybePruned[n.Parent.Hash] {
			if l.PHNil || l.PHHash != n.Parent.Hash || l.PHH != n.Height-1 {
				e.fail("C09", "previoushash-true-predecessor", fmt.Sprintf("previoushash-wrong/nil=%v/%s", l.PHNil, where),
					fmt.Sprintf("after %s: PreviousHash(%s)=(%s,%d nil=%v), true predecessor %s at %d", after, h, l.PHHash, l.PHH, l.PHNil, n.Parent.Hash, n.Height-1))
			}
		}
	}
	for _, p := range e.Probes {
		if _, ever := m.Ever[p]; ever {
			continue
		}
		l, ok := s.Looks[p]
		if !ok {
			continue
		}
		if l.HH != -1 || l.CHE != "unknown" || l.GHE != "unknown" || !l.PHNil {
			e.fail("C09", "unknown-hash-reported-unknown", "unknown-hash-known",
				fmt.Sprintf("after %s: never-accepted hash %s: HashHeight=%d CheckHeader=%q GetHeader=%q", after, p, l.HH, l.CHE, l.GHE))
		}
	}

	e.checkLocators(in, s, after)
}

func errOrWrong(s string) string {
	if s == "" {
		return "wrong-hash"
	}
	return s
}

func clampDelta(got, want int) int {
	d := got - want
	if got == -1 {
		return -9999
	}
	if d > 3 {
		return 3
	}
	if d < -3 {
		return -3
	}
	return d
}

func (e *Engine) flagFeature(in *Inst, n *Node) string {
	b := e.bi(in)
	if b.ids[n.Hash] == b.ids[in.M.Tip.Hash] {
		return "same-branch-as-tip"
	}
	return "other-branch-than-tip"
}

// ---- C19 locators ----

var splitBefore = func() map[Hash]bool {
	out := map[Hash]bool{}
	for _, s := range []string{"0000000000000000011865af4122fe3b144e2cbeea86142e8ff2fb4107352d43",
		"00000000000000000102d94fde9bd0807a2cc7582fe85dd6349b73ce4e8d9322"} {
		h, _ := bitcoin.NewHash32FromStr(s)
		out[*h] = true
	}
	return out
}()

func (e *Engine) checkLocators(in *Inst, s *Snap, after string) {
	if !e.on("C19") {
		return
	}
	m := in.M
	tip := m.Tip
	onBest := map[Hash]int{}
	for _, n := range Chain(tip) {
		onBest[n.Hash] = n.Height
	}
	anyPruned := len(m.MaybePruned) > 0 || m.HookPruned
	for _, mx := range locatorMaxes {
		if s.LocErr[mx] != "" {
			e.fail("C19", "locator-returned", "locator-error/"+s.LocErr[mx], "")
			continue
		}
		loc := s.Locators[mx]
		seen := map[Hash]bool{}
		var bestHeights []int
		sideBases := 0
		for _, h := range loc {
			if seen[h] {
				e.fail("C19", "no-hash-twice", "locator-duplicate",
					fmt.Sprintf("after %s: GetLocatorHashes(%d) lists %s twice (tip height %d)", after, mx, h, tip.Height))
				break
			}
			seen[h] = true
			if ht, ok := onBest[h]; ok {
				bestHeights = append(bestHeights, ht)
				continue
			}
			if splitBefore[h] {
				continue
			}
			n := m.Nodes[h]
			if n == nil {
				e.fail("C19", "locator-membership", "locator-foreign-hash",
					fmt.Sprintf("after %s: GetLocatorHashes(%d) lists %s which is neither best-chain, split point nor side-branch base", after, mx, h))
				continue
			}
			sideBases++
			if !anyPruned && n.Parent != nil {
				if _, pb := onBest[n.Parent.Hash]; !pb && len(m.LiveChildren(n.Parent)) < 2 && !hasRemovedOrDroppedSibling(m, n) {
					e.fail("C19", "locator-membership", "locator-side-hash-not-a-branch-base",
						fmt.Sprintf("after %s: GetLocatorHashes(%d) lists side header %s (h=%d) that is not the base of a branch", after, mx, h, n.Height))
				}
			}
		}
		if len(bestHeights) == 0 {
			e.fail("C19", "begins-with-tip-parent", "locator-no-best-chain-hash", fmt.Sprintf("after %s: max=%d", after, mx))
			continue
		}
		// best-chain hashes strictly descending. The base of the (non-longest) root branch is a
		// best-chain header too and is sorted in by height, so order is checked on the whole list.
		for i := 1; i < len(bestHeights); i++ {
			if bestHeights[i] >= bestHeights[i-1] {
				e.fail("C19", "newest-first", "locator-order",
					fmt.Sprintf("after %s: GetLocatorHashes(%d) best-chain heights %v not strictly descending", after, mx, bestHeights))
				break
			}
		}
		wantFirst := tip.Height - 1
		if tip.Height == 0 {
			wantFirst = 0
		}
		if bestHeights[0] != wantFirst {
			// a side-branch base above the tip's parent cannot be a best-chain hash, so the first
			// best-chain hash must be the tip's parent
			e.fail("C19", "begins-with-tip-parent", fmt.Sprintf("locator-first-height/delta=%d", clampDelta(bestHeights[0], wantFirst)),
				fmt.Sprintf("after %s: GetLocatorHashes(%d) first best-chain hash at height %d, tip parent is %d", after, mx, bestHeights[0], wantFirst))
		}
		// count: best-chain hashes <= max, not counting branch bases that happen to lie on the best
		// chain (root branch base when the tip is on a child branch).
		extra := e.bestChainBranchBases(in)
		if len(bestHeights) > mx+extra {
			e.fail("C19", "count-within-max", "locator-too-many",
				fmt.Sprintf("after %s: GetLocatorHashes(%d) has %d best-chain hashes (allowing %d branch bases on the best chain)", after, mx, len(bestHeights), extra))
		}
	}
}

func hasRemovedOrDroppedSibling(m *Model, n *Node) bool {
	for _, c := range n.Parent.Children {
		if c != n && (c.Removed || m.MaybeDropped[c.Hash]) {
			return true
		}
	}
	return false
}

// bestChainBranchBases counts emulated non-tip branches whose lowest header lies on the best chain.
func (e *Engine) bestChainBranchBases(in *Inst) int {
	b := e.bi(in)
	tipB := b.ids[in.M.Tip.Hash]
	bases := map[int]bool{}
	for _, n := range Chain(in.M.Tip) {
		id := b.ids[n.Hash]
		if id != tipB {
			bases[id] = true
		}
	}
	return len(bases)
}

// ---- C07 streams ----

func (e *Engine) Subscribe() {
	e.Trace.Ops = append(e.Trace.Ops, Op{K: "sub"})
	e.opIdx = len(e.Trace.Ops) - 1
	for _, in := range e.Insts {
		if in.Tainted {
			continue
		}
		ch := in.Repo.GetNewHeadersAvailableChannel()
		in.Subs = append(in.Subs, &Sub{ch: ch, local: append([]Hash(nil), in.Snap.Hashes...)})
	}
}

func (e *Engine) checkStreams(in *Inst, before, after *Snap, reported, rel string) {
	// expected announcement: best-chain-after minus best-chain-before, ascending
	div := 0
	for div < len(before.Hashes) && div < len(after.Hashes) && before.Hashes[div] == after.Hashes[div] {
		div++
	}
	var want []Hash
	if div < len(after.Hashes) {
		want = after.Hashes[div:]
	}
	for si, sub := range in.Subs {
		var got []*wire.BlockHeader
	drain:
		for {
			select {
			case hd, ok := <-sub.ch:
				if !ok {
					break drain
				}
				got = append(got, hd)
			default:
				break drain
			}
		}
		e.Stats["stream_headers"] += len(got)
		same := len(got) == len(want)
		for i := 0; same && i < len(want); i++ {
			same = *got[i].BlockHash() == want[i]
		}
		if !same {
			e.fail("C07", "announced-equals-new-best-chain-part",
				fmt.Sprintf("stream-mismatch/after=%s/%s/got=%s/want=%s", reported, rel, cnt(len(got)), cnt(len(want))),
				fmt.Sprintf("subscriber %d: submission answered %q (%s): announced %d headers, best chain gained %d above height %d",
					si, reported, rel, len(got), len(want), div-1))
			in.Tainted = true
			return
		}
		// apply
		for _, hd := range got {
			idx := -1
			for i := len(sub.local) - 1; i >= 0; i-- {
				if sub.local[i] == hd.PrevBlock {
					idx = i
					break
				}
			}
			if idx == -1 {
				e.fail("C07", "stream-applies", "stream-header-does-not-attach", "")
				in.Tainted = true
				return
			}
			sub.local = append(sub.local[:idx+1], *hd.BlockHash())
		}
		ok := len(sub.local) == len(after.Hashes)
		for i := 0; ok && i < len(sub.local); i++ {
			ok = sub.local[i] == after.Hashes[i]
		}
		if !ok {
			e.fail("C07", "applied-stream-yields-reported-chain", "stream-local-chain-differs/"+rel, "")
			in.Tainted = true
			return
		}
	}
}

func cnt(n int) string {
	switch {
	case n == 0:
		return "0"
	case n == 1:
		return "1"
	}
	return "n"
}

// drainQuiet checks that a maintenance op announced nothing.
func (e *Engine) drainQuiet(in *Inst, op string) {
	for _, sub := range in.Subs {
		n := 0
	drain:
		for {
			select {
			case _, ok := <-sub.ch:
				if !ok {
					break drain
				}
				n++
			default:
				break drain
			}
		}
		if n > 0 {
			e.fail("C07", "only-best-chain-entries-announced", "announcement-by-"+op, fmt.Sprintf("%d headers announced by %s", n, op))
		}
	}
}

// BulkExtend appends a straight run of headers to the best tip of the newest instance without
// per-header snapshots (used to build long base chains); one snapshot is taken at the end.
func (e *Engine) BulkExtend(hs []*wire.BlockHeader) bool {
	for _, hd := range hs {
		e.Trace.Ops = append(e.Trace.Ops, Op{K: "submit", Hdr: HdrHex(hd), Note: "base"})
	}
	e.opIdx = len(e.Trace.Ops) - 1
	for _, in := range e.Insts {
		if in.Tainted {
			continue
		}
		for _, hd := range hs {
			var err error
			pan := safe(func() { err = in.Repo.ProcessHeader(e.Ctx, hd) })
			if pan != "" || err != nil {
				e.fail("C08", "reference-verdict", "verdict/got="+errKind(pan, err)+"/want=accepted", fmt.Sprintf("base header refused: %v %v", pan, err))
				e.fail("C01", "tip-is-max-work", "base-header-refused", fmt.Sprintf("%v %v", pan, err))
				in.Tainted = true
				return false
			}
			n := in.M.Accept(hd)
			if n == nil {
				in.Tainted = true
				return false
			}
			e.assignBranch(in, n)
			if n.Cum.Cmp(in.M.Tip.Cum) > 0 {
				in.M.Tip = n
			}
			e.Stats["verdict_ok"]++
		}
		// the automatic clean every 10000 heights may have run
		if in.M.Tip.Height >= 10000 {
			e.consolidateBranches(in)
			e.markPrunedBest(in, prodPruneDepth)
		}
		in.Snap = e.snap(in)
		e.checkState(in, in.Snap, "bulk-extend")
		for _, sub := range in.Subs {
			sub.local = append([]Hash(nil), in.Snap.Hashes...)
			for len(sub.ch) > 0 {
				<-sub.ch
			}
		}
	}
	return !e.Failed()
}

// SparseHeights is the height selector used for long chains: everything near the tip and near
// the 1000-header file boundaries plus a regular sample.
func SparseHeights(h, tip int) bool {
	return tip <= 300 || h >= tip-14 || h%1000 == 0 || h%1000 == 999 || h%457 == 0 || h < 2
}

func memOrStore(m *Model, n *Node) string {
	if m.MaybePruned[n.Hash] {
		return "possibly-from-storage"
	}
	return "in-memory"
}
