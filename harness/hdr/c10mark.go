package hdr

import (
	"context"
	"fmt"
	"runtime"

	"verifharness/common"

	"github.com/tokenized/bitcoin_reader/headers"
	"github.com/tokenized/pkg/wire"
)

// C10MarkThenPrune: what MarkHeaderInvalid leaves in the repository's hash lookup is only
// consulted once the surviving headers leave memory. A chain with a side branch forking at, just
// below or well below an invalidated header X (X in the middle of the root branch, or in the
// middle of a child branch that became the best chain) is invalidated at X; the surviving best
// chain grows past the prune depth; then Clean and a prune (hook depth: what Clean does beyond
// 10000 headers). Every header of the best chain must be reported by hash exactly as before.
func C10MarkThenPrune(ctx context.Context, run *common.Run) {
	type combo struct {
		forkBelowX int  // the side branch forks from the header this many heights below X (0: from X itself)
		nested     bool // X lies in a child branch that overtook the root branch earlier
		depth      int
	}
	var combos []combo
	for _, fb := range []int{0, 1, 2, 5} {
		for _, nested := range []bool{false, true} {
			for _, d := range []int{8, 12} {
				combos = append(combos, combo{fb, nested, d})
			}
		}
	}
	common.ParallelFor(len(combos), runtime.NumCPU(), func(ci int) {
		c := combos[ci]
		rng := common.Rng(run.Seed, int64(1010000+ci))
		st := common.NewMemStore()
		repo := headers.NewRepository(headers.DefaultConfig(), st)
		repo.DisableDifficulty()
		repo.InitializeWithGenesis()
		type node struct {
			hd     *wire.BlockHeader
			h      int
			parent *node
			dead   bool
		}
		all := map[Hash]*node{}
		g := &node{hd: MainGenesis()}
		all[*g.hd.BlockHash()] = g
		w := map[string]interface{}{"kind": "mark-invalid-then-prune", "side_branch_forks_below_marked": c.forkBelowX, "marked_header_in_child_branch": c.nested, "prune_depth": c.depth, "seed": run.Seed}
		fail := func(clause, sig, detail string) {
			run.Violate(common.Violation{Clause: clause, Signature: sig, Detail: fmt.Sprintf("fork %d below the marked header, nested=%v, prune depth %d: %s", c.forkBelowX, c.nested, c.depth, detail), Witness: w})
		}
		ok := true
		add := func(p *node) *node {
			hd := &wire.BlockHeader{Version: 1, PrevBlock: *p.hd.BlockHash(), Timestamp: p.hd.Timestamp + 600, Bits: 0x1d00ffff, Nonce: rng.Uint32()}
			rng.Read(hd.MerkleRoot[:])
			if err := repo.ProcessHeader(ctx, hd); err != nil {
				if ok {
					run.Inconclusive("mark-then-prune: build: " + err.Error())
				}
				ok = false
			}
			n := &node{hd: hd, h: p.h + 1, parent: p}
			all[*hd.BlockHash()] = n
			return n
		}
		extend := func(p *node, k int) *node {
			for i := 0; i < k; i++ {
				p = add(p)
			}
			return p
		}
		atHeight := func(tip *node, h int) *node {
			for tip != nil && tip.h > h {
				tip = tip.parent
			}
			return tip
		}
		var tip *node
		if c.nested {
			root := extend(g, 12)
			tip = extend(atHeight(root, 8), 30) // child branch 9..38 overtakes the root branch
		} else {
			tip = extend(g, 38)
		}
		xh := 24
		x := atHeight(tip, xh)
		side := extend(atHeight(tip, xh-c.forkBelowX), 4+rng.Intn(4)) // shorter than the best chain
		if !ok {
			return
		}
		if err := repo.MarkHeaderInvalid(ctx, *x.hd.BlockHash()); err != nil {
			fail("marking-succeeds", "mark-error/mark-then-prune", err.Error())
			return
		}
		for _, n := range all {
			for a := n; a != nil; a = a.parent {
				if a == x {
					n.dead = true
				}
			}
		}
		// the heaviest remaining chain: the side branch unless it hung off X itself
		best := atHeight(tip, xh-1)
		if !side.dead && side.h > best.h {
			best = side
		}
		if got := repo.LastHash(); got != *best.hd.BlockHash() {
			fail("best-chain-after-marking", "tip-after-mark/mark-then-prune", fmt.Sprintf("tip %s, expected the heaviest remaining chain's tip %s (h=%d)", got, best.hd.BlockHash(), best.h))
			return
		}
		best = extend(best, c.depth+5+rng.Intn(10))
		if !ok {
			return
		}
		type look struct {
			hh, ch, gh int
			cl, gl     bool
			cerr, gerr string
			ghash      Hash
		}
		snap := func() map[Hash]look {
			out := map[Hash]look{}
			for n := best; n != nil; n = n.parent {
				hash := *n.hd.BlockHash()
				var l look
				l.hh = repo.HashHeight(hash)
				var err error
				l.ch, l.cl, err = repo.CheckHeader(ctx, hash)
				l.cerr = errClass(err)
				var hd *wire.BlockHeader
				hd, l.gh, l.gl, err = repo.GetHeader(ctx, hash)
				l.gerr = errClass(err)
				if hd != nil {
					l.ghash = *hd.BlockHash()
				}
				out[hash] = l
			}
			return out
		}
		var before, after map[Hash]look
		if pan := safe(func() { before = snap() }); pan != "" {
			fail("lookups-never-crash", "lookup-panic/mark-then-prune/before-clean", pan)
			return
		}
		var err error
		if pan := safe(func() {
			if err = repo.Clean(ctx); err == nil {
				err = repo.VerifPrune(ctx, c.depth)
			}
		}); pan != "" || err != nil {
			fail("clean-succeeds", "clean-fails/mark-then-prune", fmt.Sprintf("%v %v", pan, err))
			return
		}
		if pan := safe(func() { after = snap() }); pan != "" {
			fail("lookups-never-crash", "lookup-panic/mark-then-prune/after-clean", pan)
			return
		}
		run.Eval(1)
		for n := best; n != nil; n = n.parent {
			hash := *n.hd.BlockHash()
			b, a := before[hash], after[hash]
			where := "retained"
			if n.h < best.h-c.depth {
				where = "pruned-from-memory"
			}
			if b.hh != n.h || b.cerr != "" || b.ch != n.h || !b.cl || b.gerr != "" || b.ghash != hash || b.gh != n.h || !b.gl {
				fail("best-chain-header-reported-by-hash", "lookup-wrong-before-clean/mark-then-prune", fmt.Sprintf("header at height %d before Clean: HashHeight %d, CheckHeader (%d,%v,%s), GetHeader (%d,%v,%s)", n.h, b.hh, b.ch, b.cl, b.cerr, b.gh, b.gl, b.gerr))
				return
			}
			if a != b {
				fail("clean-leaves-every-header-s-height-and-status-unchanged", "lookup-changed-by-clean/after-invalid-marking/"+where,
					fmt.Sprintf("best-chain header at height %d: before Clean HashHeight %d CheckHeader (%d,%v,%q) GetHeader (%d,%v,%q); after Clean and prune HashHeight %d CheckHeader (%d,%v,%q) GetHeader (%d,%v,%q)",
						n.h, b.hh, b.ch, b.cl, b.cerr, b.gh, b.gl, b.gerr, a.hh, a.ch, a.cl, a.cerr, a.gh, a.gl, a.gerr))
				return
			}
		}
		run.DistinctStr(fmt.Sprintf("mark-then-prune/%d/%v/%d", c.forkBelowX, c.nested, c.depth))
	})
}
