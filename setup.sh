#!/bin/bash
# Builds the verification harness offline from files on disk.
set -e
cd "$(dirname "$0")"
export GOFLAGS=-mod=mod GOPROXY=off GOSUMDB=off GOTOOLCHAIN=local
mkdir -p bin evidence replays
(cd harness && go build -tags verif -o ../bin/vcheck ./cmd/vcheck)
(cd harness && go build -tags verif -race -o ../bin/vcheck-race ./cmd/vcheck)
echo "setup ok"
