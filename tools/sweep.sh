#!/bin/bash
# tools/sweep.sh <tier> <seed>... : every registered check at each seed, one summary line each.
# With VERIF_REPO set the checks build against that repository snapshot.
cd "$(dirname "$0")/.."
tier=$1; shift
rc=0
for seed in "$@"; do
  for p in C01 C02 C03 C04 C05 C06 C07 C08 C09 C10 C11 C12 C13 C14 C15 C16 C17 C18 C19 C20; do
    out=$(VERIF_SEED=$seed ./check $p $tier 2>&1); r=$?
    echo "$out" | grep -E "^(VIOLATION|  clause|  [0-9a-z])|seed=$seed:" | grep -v "^KNOWN" | cut -c1-300
    [ $r -ne 0 ] && { rc=1; echo "EXIT $r for $p seed=$seed"; }
  done
done
exit $rc
