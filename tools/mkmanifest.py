#!/usr/bin/env python3
# Regenerates /verif/MANIFEST.json from the table below. Run after adding a check.
import json, subprocess, os
HERE = os.path.dirname(os.path.dirname(os.path.abspath(__file__)))

def sh(cmd):
    return subprocess.run(cmd, shell=True, capture_output=True, text=True).stdout.strip()

hook_commit = sh("git -C /repo log --format=%H --grep='^verif:' | tail -1")

CHECKS = {
 "C01": ("exploration", "runtime monitoring: generated header histories vs executable reference model of the accepted-header tree, after every operation; race detector on concurrent submitters",
         "Reported tip/ancestry compared with a reference tree after every op of thousands of seeded histories (all fork shapes, Clean/Save/Load interleaved, arrival-order permutations, concurrent submitters under -race). Held on the histories explored, not a proof.", "3/C01"),
 "C02": ("exploration", "runtime monitoring: crash boundary + differential against a reference compact-bits decoder and a reference cw-144 difficulty algorithm; real-chain replay with single-field mutants",
         "All 256 exponent bytes x mantissa classes x placements through ProcessHeader; Branch.Target vs reference on thousands of synthetic chains with hostile timestamps; both real-chain fixtures replayed with difficulty enabled and mutated.", "3/C02"),
 "C03": ("exploration", "runtime monitoring: verdict table at the split height on the real chain and on forks below it; scripted peer replies to the verification request over loopback",
         "Real chain to 556766, then thousands of offers at 556767 (BSV, BCH, generated) on main chain and forks; VerifyHeader table; peer side: verified iff first header is the BSV split header.", "3/C03"),
 "C04": ("fault_enumeration", "fault injection: every single-point corruption and fault point of generated blocks delivered to the real BlockDownloader (recording processor / store); proofs re-verified by a reference merkle implementation; end-to-end slice through a real node over loopback; race detector",
         "Exhaustive single-point corruption and fault-point enumeration for small blocks, sampled for larger ones; the oracle is the implication effects => (header, count, merkle root all verified) plus order/identity/proof validity of the confirmations.", "3/C04"),
 "C05": ("exploration", "runtime monitoring: offline order / exactly-once / conservation checker over the recorded block-request and processing log of a real NodeManager + BlockManager driven by a scripted, failing block source; bounded-progress check at observed quiescence; race detector; thorough tier adds a gofail failpoint phase (seeded sleeps between critical sections of the block manager/downloader)",
         "Thousands of scenarios over chain length, start height, already-processed sets, mid-round headers, source failures and reorgs with pending requests; the request log must be contiguous ascending best-chain blocks from the right first height, never below start / already processed, each processed once, and complete after the final trigger.", "3/C05"),
 "C06": ("exploration", "runtime monitoring: recorded concurrent histories of the real TxManager checked offline - conservation (exactly-once), never-after-delivery, per-txid linearizability (porcupine) and a one-sided timing inequality for re-requests; end-to-end slice with real nodes sharing the manager; a backlogged-processor scenario (hand-over channel full for longer than the manager's own warning timer); race detector; thorough tier adds a gofail failpoint phase (seeded sleeps between the lock regions of AddTxID/AddTx/GetTxRequests)",
         "Thousands of histories with 2-16 concurrent peers over few txids in two timeout regimes; every call recorded at the client boundary; bounded-retry polls at quiescence instead of an unbounded eventually.", "3/C06"),
 "C07": ("exploration", "runtime monitoring: stream applier + set-difference oracle on the subscriber channels after every submission",
         "Announcements of every submission compared with best-chain-after minus best-chain-before for 0-3 subscribers over seeded histories with every reorg kind.", "3/C07"),
 "C08": ("exploration", "runtime monitoring: set-valued reference verdict per submission and full read-API snapshot diff around every refusal",
         "Every submission's answer class must lie in the reference verdict set; every non-accepting answer is bracketed by snapshots of all read APIs (and Save images) that must be equal.", "3/C08"),
 "C09": ("exploration", "runtime monitoring: every accepted header looked up through every by-hash/by-height API after every operation vs reference model; load / grow / prune-again scenario for headers restored from storage",
         "HashHeight/CheckHeader/GetHeader/PreviousHash/Hash/Header/GetHeaders for every accepted header and height after every op, incl. consolidated, pruned and reloaded states.", "3/C09"),
 "C10": ("exploration", "runtime monitoring: snapshot-before == snapshot-after around every Clean (histories with forks, invalid marks and hook prune depths), then differential continuation vs reference model; load-grow-prune and mark-then-prune scenarios",
         "Clean at every kind of position, repeated, small prune depths via hook and real 10000 depth via long chains; history continues afterwards.", "3/C10"),
 "C11": ("exploration", "runtime monitoring: original vs loaded vs reference model, twin continuation after Save/Load, legacy-file migration",
         "Multi-generation Save/Load with Clean in between; loaded instance compared with original and model; both receive the same continuation.", "3/C11"),
 "C12": ("fault_enumeration", "fault injection: every prefix of the journalled Write/Remove sequence of each Clean/Save is loaded by a fresh repository (production Load, and the load step at the history's hook prune depth) and checked; plus one production-depth scenario (10010-header chain, 10005-deep reorganisation)",
         "Per history the crash points of every maintenance op are enumerated exhaustively (each key write atomic); histories themselves are sampled.", "3/C12"),
 "C13": ("exploration", "runtime monitoring: spies on header repository / peer book / tx processor and on the bytes the scripted peer receives while a real BitcoinNode (and a real NodeManager) is connected to unverified scripted peers over loopback; race detector",
         "Hundreds to thousands of sessions in which the peer sends every message kind before, during and around a failing verification; zero-contact oracle evaluated while Verified() is false.", "3/C13"),
 "C14": ("exploration", "runtime monitoring: ping/pong barrier after generated well-formed message sequences against a real BitcoinNode over loopback; close-cause classifier; race detector",
         "Seeded sequences over the full command set incl. made-up commands, classic and extended framing, payloads up to several MB, every block/tx state; a pong must follow each sequence.", "3/C14"),
 "C15": ("exploration", "runtime monitoring with process supervision: hostile byte streams against real BitcoinNodes inside journalled, memory-budgeted worker processes; liveness of the worker, of a canary connection and of Run; second pass under the race detector",
         "Each case delivers one generated hostile input (random, mutated valid messages, hostile declared lengths and counts, extended headers up to 2^64-1, every bits exponent, handshake floods) at one of four session stages (before handshake, during verification, ready, ready with a block request outstanding); hostile headers payloads also go straight into Repository.HandleHeadersMessage; a dead worker is attributed to the journalled case and re-run alone.", "3/C15"),
 "C16": ("exploration", "runtime monitoring: seeded schedules of handler / Cancel / Stop / interrupt against the real BlockDownloader and BlockManager with scheduling perturbations inside the critical windows; terminal-signal counting, goroutine-state classification on watchdog expiry; race detector; thorough tier adds a gofail failpoint phase (seeded sleeps after the state decisions of Cancel/Stop, after the Started send and around downloader registration/removal)",
         "Tens of thousands of level-1 schedules (distinct observed event orders reported) and thousands of level-2 manager scenarios with failing sources, aborts and shutdown; exactly-one-terminal-signal, completion-implies-success, downloader list empties, concurrency bound.", "3/C16"),
 "C17": ("exploration", "runtime monitoring: reference model with invalid marks vs repository after every mark/unmark/submit/Save/Load",
         "Marks on best chain at several depths, side branches, unseen and unknown hashes, repeated marks, unmark+resubmit, reload.", "3/C17"),
 "C18": ("fault_enumeration", "fault injection: every single-element corruption of each valid merkle proof (built by a reference implementation) must be rejected; valid proofs must report the model's height and best-chain flag",
         "For each sampled block of each generated history (best chain, side branch, pruned history; 1-70 txids) valid proofs in 4 encodings are verified and then every single-element corruption is enumerated.", "3/C18"),
 "C19": ("exploration", "runtime monitoring: locator well-formedness oracle after every operation + simulated conformant peer replies submitted back",
         "Locators for max in {1,2,3,10,50} after every op; real-chain fixture sweep around the split heights; peer replies must connect.", "3/C19"),
 "C20": ("exploration", "runtime monitoring: linearizability checking (porcupine) of recorded concurrent peer-book histories under the race detector; model-based sequential differential incl. Save/Load round trip and Load on a repository in use; Save/Load/Clear inside the concurrent histories; fault enumeration over every prefix of saved files and damaged contents",
         "Concurrent histories <= 40 ops checked against a sequential specification; sequential sequences vs model; every file prefix and seeded damaged files through Load, huge declared sizes in a 4 GiB child process.", "3/C20"),
}
NOT_YET = {}
ALL = ["C%02d" % i for i in range(1, 21)]

checks = []
for pid in ALL:
    if pid not in CHECKS:
        continue
    cat, tech, text, ref = CHECKS[pid]
    checks.append({
        "property_id": pid,
        "quick_cmd": "./check %s quick" % pid,
        "thorough_cmd": "./check %s thorough" % pid,
        "evidence_file": "/verif/evidence/%s.json" % pid,
        "replay_cmd_template": "./check %s quick --replay {path}" % pid,
        "engine": "vcheck",
        "level_claimed": {"category": cat, "text": text, "design_ref": "DESIGN.md section " + ref},
        "level_note": "Trusted base: the harness reference models and generators under /verif/harness; Go runtime and race detector; storage and network are harness fakes / loopback sockets. Holds only for executions explored.",
        "technique": tech,
    })

na = [{"property_id": p, "reason": NOT_YET.get(p, "check not built yet in this session; see DESIGN.md")} for p in ALL if p not in CHECKS]

m = {
 "version": 1,
 "setup_cmd": "./setup.sh",
 "hooks": {
   "guard": "verif",
   "enable": "go build -tags verif (harness module /verif/harness with replace github.com/tokenized/bitcoin_reader => /repo)",
   "baseline_off_cmd": "cd /repo && GOFLAGS=-mod=mod GOPROXY=off GOSUMDB=off go test -json -vet=off -count=1 -timeout 25m ./...",
   "source_commits": [hook_commit],
   "add_only": True,
 },
 "engines": [{"name": "vcheck", "path": "/verif/harness", "serves_properties": [c["property_id"] for c in checks],
              "kind_free_text": "Go harness: seeded workload generators, executable reference models, online monitors, offline history checkers (porcupine), race detector, supervised worker processes"}],
 "checks": checks,
 "not_applicable": na,
 "notes": "Runtime monitoring and sanitizers only. See DESIGN.md. Known findings: /verif/known_findings.json.",
}
json.dump(m, open(os.path.join(HERE, "MANIFEST.json"), "w"), indent=1)
print("wrote MANIFEST.json with", len(checks), "checks;", len(na), "not_applicable")
