#!/bin/bash
# usage: tools/trymutant.sh <name> <worktree> <demo-pkg-dir (. or headers)> <demo-run-regex> <Cxx> [more Cxx...]
# 1. confirms the seeded change in its scratch worktree (builds, suite passes, demo fails with / passes without)
# 2. applies it to /repo, runs the named checks (quick), and undoes it straight afterwards
set -u
export GOFLAGS=-mod=mod GOPROXY=off GOSUMDB=off GOTOOLCHAIN=local
name=$1; wt=$2; pkg=$3; rx=$4; shift 4
out=/verif/seeded/$name; mkdir -p $out
cd $wt || exit 2
echo "== confirm in $wt"
git diff --quiet -- . ':!MUTANT' ':!*zz_mutant_demo_test.go' && { echo "patch not applied in worktree; applying"; git apply MUTANT/patch.diff || exit 2; }
go build ./... || { echo "BUILD FAILS"; exit 2; }
demo=$(ls $pkg/zz_mutant_demo_test.go) || exit 2
mv $demo /tmp/_demo_$name.go
suite=$(go test -vet=off -count=1 . ./headers/ 2>&1 | grep -v "no test files" | tr '\n' ' ')
echo "suite with change: $suite"
cp /tmp/_demo_$name.go $demo
with=$(cd $pkg && go test -vet=off -count=1 -run "$rx" . 2>&1 | tail -1)
echo "demo with change: $with"
git apply -R MUTANT/patch.diff
without=$(cd $pkg && go test -vet=off -count=1 -run "$rx" . 2>&1 | tail -1)
echo "demo without change: $without"
git apply MUTANT/patch.diff
cp MUTANT/patch.diff $out/patch.diff; cp /tmp/_demo_$name.go $out/$(basename $demo); cp MUTANT/README.md $out/agent_README.md 2>/dev/null
rm -f /tmp/_demo_$name.go
echo "== run checks against /repo with the change"
cd /verif
git -C /repo diff --quiet || { echo "/repo not clean"; exit 2; }
git -C /repo apply $out/patch.diff || { echo "patch does not apply to /repo"; exit 2; }
# evidence written while the change is applied is not evidence about the unchanged tree: put the old files back afterwards
rm -rf /tmp/_ev_$name; cp -r evidence /tmp/_ev_$name
res=""
for p in "$@"; do
  o=$(./check $p quick 2>&1); rc=$?
  sig=$(echo "$o" | grep -A1 "^VIOLATION" | grep "signature=" | head -3 | sed 's/^ *//' | cut -c1-220 | tr '\n' ';')
  echo "  $p: exit=$rc $sig"
  res="$res{\"check\":\"$p\",\"exit\":$rc,\"signatures\":\"$(echo $sig | sed 's/"/\\"/g')\"},"
done
git -C /repo checkout -- .
git -C /repo status --short | head -3
rm -rf evidence; mv /tmp/_ev_$name evidence
echo "{\"suite_with_change\":\"$suite\",\"demo_with_change\":\"$with\",\"demo_without_change\":\"$without\",\"checks\":[${res%,}]}" > $out/run.json
