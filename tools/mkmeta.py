#!/usr/bin/env python3
"""tools/mkmeta.py <seeded-dir-name> <property> <change> <needs> [caught-note]
Writes seeded/<name>/meta.json from the run.json that tools/trymutant.sh left there."""
import json, sys, os
name, prop, change, needs = sys.argv[1:5]
note = sys.argv[5] if len(sys.argv) > 5 else ""
d = os.path.join(os.path.dirname(os.path.abspath(__file__)), "..", "seeded", name)
run = json.loads(open(os.path.join(d, "run.json")).read(), strict=False)
clean = lambda s: " ".join(s.split())
caught = [c["check"] for c in run["checks"] if c["exit"] == 1]
meta = {
    "property": prop,
    "change": change,
    "needs_to_manifest": needs,
    "confirmed": {k: clean(run[k]) for k in ("suite_with_change", "demo_with_change", "demo_without_change")},
    "ran": "tools/trymutant.sh (scratch worktree confirmation, then git -C /repo apply + ./check <id> quick + git -C /repo checkout -- .)",
    "checks": run["checks"],
    "caught_by": [c + (" (" + note + ")" if note and c == prop else "") for c in caught],
    "origin": "independent sub-agent given only the property text and a scratch worktree",
}
json.dump(meta, open(os.path.join(d, "meta.json"), "w"), indent=1)
print(name, "caught by", meta["caught_by"])
