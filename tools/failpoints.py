#!/usr/bin/env python3
"""tools/failpoints.py <scratch-copy-of-the-repository>

Inserts `// gofail: var <name> struct{}` comment lines at anchored positions of the scratch copy
(never of /repo).  An anchor is a pair of regular expressions over consecutive statements inside
one function; the failpoint goes between them, i.e. between two critical sections or right after
a channel send -- places where the code can really be pre-empted.  An anchor that no longer
matches (the tree was edited there) is skipped and reported as not armed: the check then
degrades to harness-side widening for that window, it does not fail.

Prints a JSON object {"armed": [...], "not_armed": [...]} on stdout.
"""
import json, re, sys, os

# (file, failpoint name, function name, regex of the line BEFORE, regex of the line AFTER (blank lines in between allowed))
ANCHORS = [
    # tx manager: between releasing the shard map lock and taking the per-tx lock
    ("tx_manager.go", "fpTxIDAfterMapUnlock", "AddTxID", r"^\s*txMap\.Unlock\(\)\s*$", r"^\s*data\.Lock\(\)\s*$"),
    ("tx_manager.go", "fpTxAfterMapUnlock", "AddTx", r"^\s*txMap\.Unlock\(\)\s*$", r"^\s*data\.Lock\(\)\s*$"),
    # between marking a tx received and handing it to the processor channel
    ("tx_manager.go", "fpTxBeforeSend", "AddTx", r"^\s*data\.Unlock\(\)\s*$", r"^\s*if isNew \{\s*$"),
    # retry poll: between shards
    ("tx_manager.go", "fpTxPollBetweenShards", "GetTxRequests", r"^\s*txMap\.RUnlock\(\)\s*$", r"^\s*if count >= max \{\s*$"),
    # block downloader: after the state decision, before the signalling sends
    ("block_downloader.go", "fpBdCancelAfterState", "Cancel", r"^\s*bd\.stateLock\.Unlock\(\)\s*$", r"^\s*if sendStarted \{\s*$"),
    ("block_downloader.go", "fpBdStopAfterState", "Stop", r"^\s*bd\.stateLock\.Unlock\(\)\s*$", r"^\s*if !isStarted \{\s*$"),
    ("block_downloader.go", "fpBdHandleAfterStarted", "HandleBlock", r"^\s*bd\.Started <- hash\s*$", r"^\s*ctx = logger\.ContextWithLogFields\(ctx,\s*$"),
    # block manager: between the request being accepted by a node and the downloader being registered
    ("block_manager.go", "fpBmAfterRequest", "requestBlock", r"^\s*nodeID := node\.ID\(\)\s*$", r"^\s*downloader\.SetCanceller\(nodeID, node\)\s*$"),
    ("block_manager.go", "fpBmBeforeRegister", "requestBlock", r"^\s*\}\)\s*$", r"^\s*m\.downloaderLock\.Lock\(\)\s*$"),
    # between marking the request complete and removing the finished downloader
    ("block_manager.go", "fpBmFinishBeforeRemove", "onDownloaderCompleted", r"^\s*c\.manager\.markBlockRequestComplete\(ctx, hash\)\s*$", r"^\s*c\.manager\.removeDownloader\(ctx, c\.downloader\)\s*$"),
    # node manager: between reading the restart flag (under the lock) and the sync thread ending
    ("node_manager.go", "fpNmAfterRestartFlagRead", "runSynchronizeBlocks", r"^\s*m\.blockManagerLock\.Unlock\(\)\s*$", r"^\s*if !blockSyncNeeded \{\s*$"),
    # poll: between counting the active downloads and deciding to request again
    ("block_manager.go", "fpBmPollAfterCount", "processRequest", r"^\s*activeDownloadCount := len\(downloaders\)\s*$", r"^\s*if activeDownloadCount > 0 \{\s*$"),
]


def func_span(lines, name):
    """line index range [start, end) of the (method or function) named `name`."""
    pat = re.compile(r"^func (\([^)]*\) )?" + re.escape(name) + r"\(")
    for i, l in enumerate(lines):
        if pat.match(l):
            for j in range(i + 1, len(lines)):
                if lines[j].startswith("}"):
                    return i, j + 1
    return None


def main():
    root = sys.argv[1]
    armed, not_armed = [], []
    by_file = {}
    for fn, name, func, before, after in ANCHORS:
        by_file.setdefault(fn, []).append((name, func, before, after))
    for fn, anchors in by_file.items():
        path = os.path.join(root, fn)
        try:
            lines = open(path).read().split("\n")
        except OSError:
            not_armed += [a[0] for a in anchors]
            continue
        for name, func, before, after in anchors:
            span = func_span(lines, func)
            done = False
            if span:
                rb, ra = re.compile(before), re.compile(after)
                for i in range(span[0], span[1]):
                    if rb.match(lines[i]):
                        j = i + 1
                        while j < span[1] and lines[j].strip() == "":
                            j += 1
                        if j < span[1] and ra.match(lines[j]):
                            indent = re.match(r"^\s*", lines[j]).group(0)
                            lines[i + 1:i + 1] = [indent + "// gofail: var %s struct{}" % name]
                            done = True
                            break
            (armed if done else not_armed).append(name)
        open(path, "w").write("\n".join(lines))
    print(json.dumps({"armed": armed, "not_armed": not_armed}))


if __name__ == "__main__":
    main()
